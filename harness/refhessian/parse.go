package refhessian

import (
	"errors"
	"fmt"
	"math"
	"unicode/utf8"
)

// Parser is a strict Hessian 2.0 reader with per-stream tables.
type Parser struct {
	b       []byte
	pos     int
	Types   []string
	Classes []*Class
	Refs    []*Value
	depth   int
	// LegacyBinChunk accepts 'b' (x62) as a non-final binary chunk when class #2 is
	// not defined at that point (the per-type section of the specification).
	LegacyBinChunk bool
	// ClassDefs records at which byte offset each class definition started.
	ClassDefAt []int
}

// NewParser reads from b.
func NewParser(b []byte) *Parser { return &Parser{b: b, LegacyBinChunk: true} }

// Pos is the number of bytes consumed.
func (p *Parser) Pos() int { return p.pos }

// Feed appends more stream bytes (streaming use).
func (p *Parser) Feed(b []byte) { p.b = append(p.b, b...) }

// ParseOne parses exactly one value and requires that no byte is left over.
func ParseOne(b []byte) (*Value, error) {
	p := NewParser(b)
	v, err := p.Value()
	if err != nil {
		return nil, err
	}
	if p.pos != len(b) {
		return v, fmt.Errorf("%d trailing bytes after the value (consumed %d of %d)", len(b)-p.pos, p.pos, len(b))
	}
	return v, nil
}

var errTrunc = errors.New("truncated input")

func (p *Parser) byte1() (byte, error) {
	if p.pos >= len(p.b) {
		return 0, errTrunc
	}
	c := p.b[p.pos]
	p.pos++
	return c, nil
}

func (p *Parser) take(n int) ([]byte, error) {
	if n < 0 || p.pos+n > len(p.b) {
		return nil, errTrunc
	}
	s := p.b[p.pos : p.pos+n]
	p.pos += n
	return s, nil
}

func (p *Parser) be(n int) (uint64, error) {
	s, err := p.take(n)
	if err != nil {
		return 0, err
	}
	var u uint64
	for _, c := range s {
		u = u<<8 | uint64(c)
	}
	return u, nil
}

// Value parses one `value` production.
func (p *Parser) Value() (*Value, error) {
	p.depth++
	defer func() { p.depth-- }()
	if p.depth > 4000 {
		return nil, errors.New("nesting deeper than 4000")
	}
	start := p.pos
	t, err := p.byte1()
	if err != nil {
		return nil, err
	}
	v, err := p.valueTag(t)
	if err != nil {
		return nil, err
	}
	switch v.K {
	case Null, Bool, Int, Long, Double, Date, String, Binary, Ref:
		v.Octets = p.pos - start
	}
	return v, nil
}

func (p *Parser) valueTag(t byte) (*Value, error) {
	switch {
	case t == 'N':
		return NullV(), nil
	case t == 'T':
		return BoolV(true), nil
	case t == 'F':
		return BoolV(false), nil
	// int
	case t >= 0x80 && t <= 0xbf:
		return IntV(int32(t) - 0x90), nil
	case t >= 0xc0 && t <= 0xcf:
		b0, err := p.byte1()
		if err != nil {
			return nil, err
		}
		return IntV((int32(t)-0xc8)<<8 + int32(b0)), nil
	case t >= 0xd0 && t <= 0xd7:
		u, err := p.be(2)
		if err != nil {
			return nil, err
		}
		return IntV((int32(t)-0xd4)<<16 + int32(u)), nil
	case t == 'I':
		u, err := p.be(4)
		if err != nil {
			return nil, err
		}
		return IntV(int32(uint32(u))), nil
	// long
	case t >= 0xd8 && t <= 0xef:
		return LongV(int64(t) - 0xe0), nil
	case t >= 0xf0:
		b0, err := p.byte1()
		if err != nil {
			return nil, err
		}
		return LongV((int64(t)-0xf8)<<8 + int64(b0)), nil
	case t >= 0x38 && t <= 0x3f:
		u, err := p.be(2)
		if err != nil {
			return nil, err
		}
		return LongV((int64(t)-0x3c)<<16 + int64(u)), nil
	case t == 0x59:
		u, err := p.be(4)
		if err != nil {
			return nil, err
		}
		return LongV(int64(int32(uint32(u)))), nil
	case t == 'L':
		u, err := p.be(8)
		if err != nil {
			return nil, err
		}
		return LongV(int64(u)), nil
	// double
	case t == 0x5b:
		return DoubleV(0), nil
	case t == 0x5c:
		return DoubleV(1), nil
	case t == 0x5d:
		b0, err := p.byte1()
		if err != nil {
			return nil, err
		}
		return DoubleV(float64(int8(b0))), nil
	case t == 0x5e:
		u, err := p.be(2)
		if err != nil {
			return nil, err
		}
		return DoubleV(float64(int16(uint16(u)))), nil
	case t == 0x5f:
		u, err := p.be(4)
		if err != nil {
			return nil, err
		}
		return DoubleV(float64(math.Float32frombits(uint32(u)))), nil
	case t == 'D':
		u, err := p.be(8)
		if err != nil {
			return nil, err
		}
		return DoubleV(math.Float64frombits(u)), nil
	// date
	case t == 0x4a:
		u, err := p.be(8)
		if err != nil {
			return nil, err
		}
		return DateV(int64(u)), nil
	case t == 0x4b:
		u, err := p.be(4)
		if err != nil {
			return nil, err
		}
		v := DateV(int64(int32(uint32(u))) * 60000)
		v.Compact = true
		return v, nil
	// string
	case t <= 0x1f || (t >= 0x30 && t <= 0x33) || t == 'S' || t == 'R':
		return p.str(t)
	// binary
	case (t >= 0x20 && t <= 0x2f) || (t >= 0x34 && t <= 0x37) || t == 'B' || t == 0x41:
		return p.bin(t)
	case t == 0x62 && p.LegacyBinChunk && len(p.Classes) <= 2:
		return p.bin(t)
	// ref
	case t == 0x51:
		n, err := p.intValue("ref ordinal")
		if err != nil {
			return nil, err
		}
		if n < 0 || int(n) >= len(p.Refs) {
			return nil, fmt.Errorf("ref %d out of range (only %d containers so far)", n, len(p.Refs))
		}
		return &Value{K: Ref, Ref: int(n), Target: p.Refs[n], Ordinal: -1}, nil
	// class definition followed by a value
	case t == 'C':
		at := p.pos - 1
		name, err := p.stringValue("class name")
		if err != nil {
			return nil, err
		}
		n, err := p.intValue("field count")
		if err != nil {
			return nil, err
		}
		if n < 0 {
			return nil, fmt.Errorf("negative field count %d", n)
		}
		if int(n) > len(p.b)-p.pos {
			return nil, fmt.Errorf("field count %d exceeds remaining input", n)
		}
		c := &Class{Name: name}
		for i := 0; i < int(n); i++ {
			f, err := p.stringValue("field name")
			if err != nil {
				return nil, err
			}
			c.Fields = append(c.Fields, f)
		}
		p.Classes = append(p.Classes, c)
		p.ClassDefAt = append(p.ClassDefAt, at)
		return p.Value()
	// object
	case t >= 0x60 && t <= 0x6f:
		return p.object(int(t-0x60), true)
	case t == 'O':
		n, err := p.intValue("class index")
		if err != nil {
			return nil, err
		}
		return p.object(int(n), false)
	// lists
	case t == 0x55 || t == 'V' || (t >= 0x70 && t <= 0x77):
		return p.list(t, true)
	case t == 0x57 || t == 0x58 || (t >= 0x78 && t <= 0x7f):
		return p.list(t, false)
	// maps
	case t == 'M' || t == 'H':
		return p.mapv(t == 'M')
	}
	return nil, fmt.Errorf("tag 0x%02x does not start a value", t)
}

func (p *Parser) intValue(what string) (int32, error) {
	v, err := p.Value()
	if err != nil {
		return 0, fmt.Errorf("%s: %w", what, err)
	}
	if v.K != Int {
		return 0, fmt.Errorf("%s: expected int, found %s", what, v.K)
	}
	return int32(v.I), nil
}

func (p *Parser) stringValue(what string) (string, error) {
	v, err := p.Value()
	if err != nil {
		return "", fmt.Errorf("%s: %w", what, err)
	}
	if v.K != String {
		return "", fmt.Errorf("%s: expected string, found %s", what, v.K)
	}
	return v.S, nil
}

func (p *Parser) typeName() (string, bool, error) {
	v, err := p.Value()
	if err != nil {
		return "", false, fmt.Errorf("type: %w", err)
	}
	switch v.K {
	case String:
		p.Types = append(p.Types, v.S)
		return v.S, false, nil
	case Int:
		if v.I < 0 || int(v.I) >= len(p.Types) {
			return "", true, fmt.Errorf("type back-reference %d out of range (%d types so far)", v.I, len(p.Types))
		}
		return p.Types[v.I], true, nil
	}
	return "", false, fmt.Errorf("type: expected string or int, found %s", v.K)
}

func (p *Parser) str(t byte) (*Value, error) {
	v := &Value{K: String, Ordinal: -1}
	var out []byte
	for {
		var n int
		final := true
		switch {
		case t <= 0x1f:
			n = int(t)
		case t >= 0x30 && t <= 0x33:
			b0, err := p.byte1()
			if err != nil {
				return nil, err
			}
			n = int(t-0x30)<<8 + int(b0)
		case t == 'S' || t == 'R':
			u, err := p.be(2)
			if err != nil {
				return nil, err
			}
			n = int(u)
			final = t == 'S'
		default:
			return nil, fmt.Errorf("tag 0x%02x inside a chunked string", t)
		}
		start := p.pos
		for i := 0; i < n; i++ {
			if p.pos >= len(p.b) {
				return nil, errTrunc
			}
			r, size := utf8.DecodeRune(p.b[p.pos:])
			if r == utf8.RuneError && size <= 1 {
				return nil, fmt.Errorf("invalid UTF-8 at offset %d (character %d of a chunk of %d)", p.pos, i, n)
			}
			p.pos += size
		}
		out = append(out, p.b[start:p.pos]...)
		v.Chunks = append(v.Chunks, n)
		v.ChunkBytes = append(v.ChunkBytes, p.pos-start)
		if final {
			break
		}
		var err error
		t, err = p.byte1()
		if err != nil {
			return nil, err
		}
	}
	v.S = string(out)
	return v, nil
}

func (p *Parser) bin(t byte) (*Value, error) {
	v := &Value{K: Binary, Ordinal: -1, Bin: []byte{}}
	for {
		var n int
		final := true
		switch {
		case t >= 0x20 && t <= 0x2f:
			n = int(t - 0x20)
		case t >= 0x34 && t <= 0x37:
			b0, err := p.byte1()
			if err != nil {
				return nil, err
			}
			n = int(t-0x34)<<8 + int(b0)
		case t == 'B' || t == 0x41 || t == 0x62:
			u, err := p.be(2)
			if err != nil {
				return nil, err
			}
			n = int(u)
			final = t == 'B'
		default:
			return nil, fmt.Errorf("tag 0x%02x inside a chunked binary", t)
		}
		s, err := p.take(n)
		if err != nil {
			return nil, err
		}
		v.Bin = append(v.Bin, s...)
		v.Chunks = append(v.Chunks, n)
		if final {
			break
		}
		t, err = p.byte1()
		if err != nil {
			return nil, err
		}
	}
	return v, nil
}

func (p *Parser) object(idx int, short bool) (*Value, error) {
	if idx < 0 || idx >= len(p.Classes) {
		return nil, fmt.Errorf("object instance of class #%d but only %d classes are defined", idx, len(p.Classes))
	}
	c := p.Classes[idx]
	v := &Value{K: Object, Class: c, Ordinal: len(p.Refs), Compact: short, ClassIdx: idx}
	p.Refs = append(p.Refs, v)
	for range c.Fields {
		f, err := p.Value()
		if err != nil {
			return nil, fmt.Errorf("object %s: %w", c.Name, err)
		}
		v.Elems = append(v.Elems, f)
	}
	return v, nil
}

func (p *Parser) list(t byte, typed bool) (*Value, error) {
	v := &Value{K: List, Typed: typed}
	if typed {
		tn, byRef, err := p.typeName()
		if err != nil {
			return nil, err
		}
		v.Type, v.TypeByRef = tn, byRef
	}
	n := -1
	switch {
	case t == 0x55 || t == 0x57:
		v.Variable = true
	case t == 'V' || t == 0x58:
		c, err := p.intValue("list length")
		if err != nil {
			return nil, err
		}
		if c < 0 {
			return nil, fmt.Errorf("negative list length %d", c)
		}
		n = int(c)
	case t >= 0x70 && t <= 0x77:
		n = int(t - 0x70)
		v.Compact = true
	default:
		n = int(t - 0x78)
		v.Compact = true
	}
	if n > len(p.b)-p.pos {
		return nil, fmt.Errorf("list length %d exceeds remaining input", n)
	}
	v.Ordinal = len(p.Refs)
	p.Refs = append(p.Refs, v)
	if v.Variable {
		for {
			if p.pos >= len(p.b) {
				return nil, errTrunc
			}
			if p.b[p.pos] == 'Z' {
				p.pos++
				break
			}
			e, err := p.Value()
			if err != nil {
				return nil, err
			}
			v.Elems = append(v.Elems, e)
		}
		return v, nil
	}
	for i := 0; i < n; i++ {
		e, err := p.Value()
		if err != nil {
			return nil, fmt.Errorf("list element %d of %d: %w", i, n, err)
		}
		v.Elems = append(v.Elems, e)
	}
	return v, nil
}

func (p *Parser) mapv(typed bool) (*Value, error) {
	v := &Value{K: Map, Typed: typed}
	if typed {
		tn, byRef, err := p.typeName()
		if err != nil {
			return nil, err
		}
		v.Type, v.TypeByRef = tn, byRef
	}
	v.Ordinal = len(p.Refs)
	p.Refs = append(p.Refs, v)
	for {
		if p.pos >= len(p.b) {
			return nil, errTrunc
		}
		if p.b[p.pos] == 'Z' {
			p.pos++
			return v, nil
		}
		k, err := p.Value()
		if err != nil {
			return nil, fmt.Errorf("map key: %w", err)
		}
		val, err := p.Value()
		if err != nil {
			return nil, fmt.Errorf("map value: %w", err)
		}
		v.Elems = append(v.Elems, k, val)
	}
}
