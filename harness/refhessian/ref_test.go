package refhessian

import (
	"bytes"
	"testing"
)

func h(parts ...interface{}) []byte {
	var b []byte
	for _, p := range parts {
		switch x := p.(type) {
		case int:
			b = append(b, byte(x))
		case string:
			b = append(b, x...)
		case byte:
			b = append(b, x)
		case rune:
			b = append(b, byte(x))
		}
	}
	return b
}

// Golden vectors: the worked examples of the specification as quoted in the repository's doc comments.
func TestGolden(t *testing.T) {
	cases := []struct {
		name string
		b    []byte
		want string
	}{
		{"hello", h(0x05, "hello"), `"hello"`},
		{"chunked", h('R', 0, 1, "a", 'S', 0, 5, "hello"), `"ahello"`},
		{"int0", h(0x90), "int(0)"},
		{"int-256", h(0xc7, 0x00), "int(-256)"},
		{"int300", h('I', 0, 0, 1, 0x2c), "int(300)"},
		{"long300", h(0xf9, 0x2c), "long(300)"},
		{"long3", h(0x3c, 0, 0), "long(0)"},
		{"double12.25", h('D', 0x40, 0x28, 0x80, 0, 0, 0, 0, 0), "double(12.25)"},
		{"double-128", h(0x5d, 0x80), "double(-128)"},
		{"typedfixed", h('V', 0x04, "[int", 0x92, 0x90, 0x91), "list<[int>#0[int(0),int(1)]"},
		{"varuntyped", h(0x57, 0x90, 0x91, 'Z'), "list#0[int(0),int(1)]"},
		{"compacttyped", h(0x72, 0x04, "[int", 0x90, 0x91), "list<[int>#0[int(0),int(1)]"},
		{"car", h('C', 0x0b, "example.Car", 0x92, 0x05, "color", 0x05, "model", 'O', 0x90, 0x03, "red", 0x08, "corvette"), `obj<example.Car>#0{color="red",model="corvette"}`},
		{"sparse", h('H', 0x91, 0x03, "fee", 0xa0, 0x03, "fie", 0xc9, 0x00, 0x03, "foe", 'Z'), `map#0{int(1):"fee",int(16):"fie",int(256):"foe"}`},
		{"linkedlist", h('C', 0x0a, "LinkedList", 0x92, 0x04, "head", 0x04, "tail", 'O', 0x90, 0x91, 0x51, 0x90), "obj<LinkedList>#0{head=int(1),tail=ref(0)}"},
		{"date-min", h(0x4b, 0x00, 0xe3, 0x83, 0x8f), "date(894621060000ms)"},
		{"date-ms", h(0x4a, 0x00, 0x00, 0x00, 0xd0, 0x4b, 0x92, 0x84, 0xb8), "date(894621091000ms)"},
		{"bin", h(0x23, 1, 2, 3), "bin(010203)"},
	}
	for _, c := range cases {
		v, err := ParseOne(c.b)
		if err != nil {
			t.Errorf("%s: %v", c.name, err)
			continue
		}
		if v.String() != c.want {
			t.Errorf("%s: got %s want %s", c.name, v, c.want)
		}
	}
	bad := [][]byte{h(0x05, "hell"), h(0x51, 0x90), h('O', 0x90), h(0x90, 0x90), h(0x57, 0x90), h('V', 0x04, "[int", 0x92, 0x90), h(0x72, 0x91, 0x90, 0x91), h(0x01, 0xff)}
	for i, b := range bad {
		if _, err := ParseOne(b); err == nil {
			t.Errorf("bad %d accepted", i)
		}
	}
}

type seqCh struct {
	seq []int
	i   int
	ar  []int
}

func (s *seqCh) Pick(n int, l string) int {
	s.ar = append(s.ar, n)
	if s.i < len(s.seq) {
		x := s.seq[s.i]
		s.i++
		return x % n
	}
	s.i++
	return 0
}

// Encoder and parser agree over every choice vector of a few small values.
func TestSelfRoundTrip(t *testing.T) {
	cls := &Class{"a.B", []string{"x", "l", "m"}}
	vals := []*Value{IntV(5), IntV(-3000), LongV(7), LongV(1 << 40), DoubleV(2), DoubleV(1.5), DoubleV(1e300), DateV(120000), DateV(1234), StringV("héllo"), StringV(""), BinaryV([]byte{1, 2, 3}),
		{K: List, Typed: true, Type: "[int", Elems: []*Value{IntV(1), IntV(2)}}, {K: List, Elems: []*Value{StringV("a"), NullV()}},
		{K: Map, Elems: []*Value{StringV("k"), IntV(1)}},
		{K: Object, Class: cls, Elems: []*Value{IntV(1), {K: List, Typed: true, Type: "[int", Elems: []*Value{IntV(9)}}, {K: Map, Elems: []*Value{StringV("k"), {K: Object, Class: cls, Elems: []*Value{IntV(2), NullV(), NullV()}}}}}}}
	total := 0
	for _, v := range vals {
		var rec func(prefix []int)
		rec = func(prefix []int) {
			ch := &seqCh{seq: prefix}
			e := NewEncoder(ch)
			e.Top(v)
			total++
			got, err := ParseOne(e.Out)
			if err != nil {
				t.Fatalf("%s choices %v: % x: %v", v, prefix, e.Out, err)
			}
			if d := Diff(v, got, EqOpts{IgnoreTypes: true}); d != "" {
				t.Fatalf("%s choices %v: %s", v, prefix, d)
			}
			if len(prefix) == 0 && !bytes.Equal(Encode(v), e.Out) {
				t.Fatal("canon mismatch")
			}
			if total > 200000 {
				return
			}
			for i := len(prefix); i < len(ch.ar); i++ {
				for a := 1; a < ch.ar[i]; a++ {
					np := append(append([]int{}, prefix...), make([]int, i-len(prefix))...)
					np = append(np, a)
					rec(np)
				}
			}
		}
		rec(nil)
	}
	t.Logf("%d encodings", total)
}
