package refhessian

import (
	"math"
	"unicode/utf8"
)

// Choices decides which legal production the encoder uses at each node.
// Alternative 0 is always the canonical (shortest / simplest) one.
type Choices interface {
	Pick(n int, label string) int
}

// Canon always picks the canonical production.
type Canon struct{}

// Pick returns 0.
func (Canon) Pick(int, string) int { return 0 }

// Encoder writes abstract values.
type Encoder struct {
	Ch      Choices
	Out     []byte
	types   []string
	classes []*Class
	// FieldCtx is true while encoding a value that sits directly in an object field
	// whose Go destination type is statically known (lists/maps may drop or add types).
	allowRetype bool
	// NonFinalBin is the tag for non-final binary chunks (x41 per collected grammar).
	NonFinalBin byte
	// ordinals of the containers already written (shared nodes are written as references)
	ordinals map[*Value]int
	nextOrd  int
	// NoRefs writes shared nodes again instead of by reference (cycles then never end: caller's duty)
	NoRefs bool
	// NoCompactDate renders every date in the 8-octet form whatever the choice says
	NoCompactDate bool
}

// NewEncoder builds an encoder.
func NewEncoder(ch Choices) *Encoder {
	if ch == nil {
		ch = Canon{}
	}
	return &Encoder{Ch: ch, NonFinalBin: 0x41, ordinals: map[*Value]int{}}
}

// Encode renders one top-level value canonically.
func Encode(v *Value) []byte {
	e := NewEncoder(nil)
	e.Top(v)
	return e.Out
}

// Top writes a top-level value; class definitions may be hoisted in front of it.
func (e *Encoder) Top(v *Value) {
	// collect classes in first-use order
	var order []*Class
	seen := map[*Class]bool{}
	visited := map[*Value]bool{}
	var walk func(x *Value, d int)
	walk = func(x *Value, d int) {
		if x == nil || d > 3000 || visited[x] {
			return
		}
		visited[x] = true
		if x.K == Object && !seen[x.Class] && e.classIndex(x.Class) < 0 {
			seen[x.Class] = true
			order = append(order, x.Class)
		}
		for _, c := range x.Elems {
			walk(c, d+1)
		}
	}
	walk(v, 0)
	if len(order) >= 2 && e.Ch.Pick(2, "hoist-order") == 1 {
		// definitions hoisted in the reverse of the order of first use
		for i, j := 0, len(order)-1; i < j; i, j = i+1, j-1 {
			order[i], order[j] = order[j], order[i]
		}
	}
	for _, c := range order {
		if e.Ch.Pick(2, "hoist-classdef") == 1 {
			e.classDef(c)
		}
	}
	e.Value(v)
}

func (e *Encoder) classIndex(c *Class) int {
	for i, x := range e.classes {
		if x == c {
			return i
		}
	}
	return -1
}

func (e *Encoder) classDef(c *Class) int {
	e.Out = append(e.Out, 'C')
	e.str(c.Name, "classname")
	e.int32(int32(len(c.Fields)), "fieldcount")
	for _, f := range c.Fields {
		e.str(f, "fieldname")
	}
	e.classes = append(e.classes, c)
	return len(e.classes) - 1
}

// IntForms lists the octet counts legal for v (ascending).
func IntForms(v int32) []int {
	var f []int
	if v >= -16 && v <= 47 {
		f = append(f, 1)
	}
	if v >= -2048 && v <= 2047 {
		f = append(f, 2)
	}
	if v >= -262144 && v <= 262143 {
		f = append(f, 3)
	}
	return append(f, 5)
}

// LongForms lists the octet counts legal for v (ascending).
func LongForms(v int64) []int {
	var f []int
	if v >= -8 && v <= 15 {
		f = append(f, 1)
	}
	if v >= -2048 && v <= 2047 {
		f = append(f, 2)
	}
	if v >= -262144 && v <= 262143 {
		f = append(f, 3)
	}
	if v >= math.MinInt32 && v <= math.MaxInt32 {
		f = append(f, 5)
	}
	return append(f, 9)
}

// DoubleForms lists the octet counts legal for v (ascending); NaN only in 9 (or 5 if float32-exact pattern).
func DoubleForms(v float64) []int {
	var f []int
	if v == 0 && !math.Signbit(v) || v == 1 {
		f = append(f, 1)
	}
	if v == math.Trunc(v) && !math.IsInf(v, 0) && !(v == 0 && math.Signbit(v)) {
		if v >= -128 && v <= 127 {
			f = append(f, 2)
		}
		if v >= -32768 && v <= 32767 {
			f = append(f, 3)
		}
	}
	if float64(float32(v)) == v {
		f = append(f, 5)
	}
	return append(f, 9)
}

// ShortestDouble is the octet count the property demands: the shortest form whose
// decoded value is exactly the input (−0 may use the forms of 0, NaN uses any form that decodes to NaN).
func ShortestDouble(v float64) int {
	if math.IsNaN(v) {
		return 5 // float32 NaN decodes to NaN; 9 is also accepted by callers
	}
	if v == 0 {
		return 1
	}
	return DoubleForms(v)[0]
}

func be(out []byte, u uint64, n int) []byte {
	for i := n - 1; i >= 0; i-- {
		out = append(out, byte(u>>(8*uint(i))))
	}
	return out
}

// AppendInt appends v in the form with the given octet count.
func AppendInt(out []byte, v int32, octets int) []byte {
	switch octets {
	case 1:
		return append(out, byte(0x90+v))
	case 2:
		return append(out, byte(0xc8+(v>>8)), byte(v))
	case 3:
		return append(out, byte(0xd4+(v>>16)), byte(v>>8), byte(v))
	}
	return be(append(out, 'I'), uint64(uint32(v)), 4)
}

// AppendLong appends v in the form with the given octet count.
func AppendLong(out []byte, v int64, octets int) []byte {
	switch octets {
	case 1:
		return append(out, byte(0xe0+v))
	case 2:
		return append(out, byte(0xf8+(v>>8)), byte(v))
	case 3:
		return append(out, byte(0x3c+(v>>16)), byte(v>>8), byte(v))
	case 5:
		return be(append(out, 0x59), uint64(uint32(int32(v))), 4)
	}
	return be(append(out, 'L'), uint64(v), 8)
}

// AppendDouble appends v in the form with the given octet count.
func AppendDouble(out []byte, v float64, octets int) []byte {
	switch octets {
	case 1:
		if v == 1 {
			return append(out, 0x5c)
		}
		return append(out, 0x5b)
	case 2:
		return append(out, 0x5d, byte(int8(v)))
	case 3:
		return append(out, 0x5e, byte(int16(v)>>8), byte(int16(v)))
	case 5:
		return be(append(out, 0x5f), uint64(math.Float32bits(float32(v))), 4)
	}
	return be(append(out, 'D'), math.Float64bits(v), 8)
}

func (e *Encoder) int32(v int32, label string) {
	f := IntForms(v)
	e.Out = AppendInt(e.Out, v, f[e.Ch.Pick(len(f), "int-form:"+label)])
}

// SplitOptions lists chunkings of a sequence of n units; option 0 is a single chunk
// (or maximal chunks when n > 65535).
func SplitOptions(n int) [][]int {
	var opts [][]int
	if n <= 65535 {
		opts = append(opts, []int{n})
	} else {
		var c []int
		for r := n; r > 0; r -= 65535 {
			if r > 65535 {
				c = append(c, 65535)
			} else {
				c = append(c, r)
			}
		}
		opts = append(opts, c)
	}
	if n <= 5 {
		// every composition of n, plus an empty leading chunk variant
		var rec func(rem int, cur []int)
		rec = func(rem int, cur []int) {
			if rem == 0 {
				if len(cur) > 1 {
					opts = append(opts, append([]int{}, cur...))
				}
				return
			}
			for k := 1; k <= rem; k++ {
				rec(rem-k, append(cur, k))
			}
		}
		rec(n, nil)
		opts = append(opts, []int{0, n})
		if n > 0 {
			opts = append(opts, []int{n, 0})
		}
		return opts
	}
	add := func(c ...int) {
		for _, x := range c {
			if x < 0 || x > 65535 {
				return
			}
		}
		opts = append(opts, c)
	}
	add(1, n-1)     // growing chunks
	add(n-1, 1)     // shrinking
	add(n/2, n-n/2) // halves
	add(2, 3, n-5)  // growing three
	add(n-5, 3, 2)  // shrinking three
	add(0, n)       // empty leading chunk
	add(n/3, n/3+1, n-2*(n/3)-1)
	return opts
}

func (e *Encoder) str(s string, label string) {
	n := utf8.RuneCountInString(s)
	opts := SplitOptions(n)
	split := opts[e.Ch.Pick(len(opts), "str-split:"+label)]
	pos := 0
	for ci, c := range split {
		start := pos
		for i := 0; i < c; i++ {
			_, sz := utf8.DecodeRuneInString(s[pos:])
			pos += sz
		}
		payload := s[start:pos]
		if ci < len(split)-1 {
			e.Out = append(e.Out, 'R', byte(c>>8), byte(c))
		} else {
			var forms []int // 0 short, 1 medium, 2 'S'
			if c <= 31 {
				forms = append(forms, 0)
			}
			if c <= 1023 {
				forms = append(forms, 1)
			}
			forms = append(forms, 2)
			switch forms[e.Ch.Pick(len(forms), "str-final:"+label)] {
			case 0:
				e.Out = append(e.Out, byte(c))
			case 1:
				e.Out = append(e.Out, byte(0x30+(c>>8)), byte(c))
			default:
				e.Out = append(e.Out, 'S', byte(c>>8), byte(c))
			}
		}
		e.Out = append(e.Out, payload...)
	}
}

func (e *Encoder) bin(b []byte) {
	opts := SplitOptions(len(b))
	split := opts[e.Ch.Pick(len(opts), "bin-split")]
	pos := 0
	for ci, c := range split {
		if ci < len(split)-1 {
			e.Out = append(e.Out, e.NonFinalBin, byte(c>>8), byte(c))
		} else {
			var forms []int
			if c <= 15 {
				forms = append(forms, 0)
			}
			forms = append(forms, 2)
			if forms[e.Ch.Pick(len(forms), "bin-final")] == 0 {
				e.Out = append(e.Out, byte(0x20+c))
			} else {
				e.Out = append(e.Out, 'B', byte(c>>8), byte(c))
			}
		}
		e.Out = append(e.Out, b[pos:pos+c]...)
		pos += c
	}
}

func (e *Encoder) typ(t string) {
	// every earlier occurrence of the same type string is a legal back-reference target (a literal
	// type string always takes a new slot, also when it repeats an earlier one)
	var idx []int
	for i, x := range e.types {
		if x == t {
			idx = append(idx, i)
		}
	}
	if len(idx) > 0 {
		if c := e.Ch.Pick(1+len(idx), "type-backref"); c > 0 {
			e.int32(int32(idx[len(idx)-c]), "typeref") // alternative 1 = the most recent occurrence
			return
		}
	}
	// a literal type string always extends the type table
	e.types = append(e.types, t)
	e.str(t, "type")
}

// RetypeField marks list/map values that sit directly in an object field with a
// statically typed destination: the encoder may then drop or add the type.
type retype struct{}

// Value writes one value.
func (e *Encoder) Value(v *Value) {
	retypeOK := e.allowRetype
	e.allowRetype = false
	if v.K == List || v.K == Map || v.K == Object {
		if n, ok := e.ordinals[v]; ok && !e.NoRefs {
			e.Out = append(e.Out, 0x51)
			e.int32(int32(n), "ref")
			return
		}
		e.ordinals[v] = e.nextOrd
		e.nextOrd++
	}
	switch v.K {
	case Null:
		e.Out = append(e.Out, 'N')
	case Bool:
		if v.B {
			e.Out = append(e.Out, 'T')
		} else {
			e.Out = append(e.Out, 'F')
		}
	case Int:
		e.int32(int32(v.I), "value")
	case Long:
		f := LongForms(v.I)
		e.Out = AppendLong(e.Out, v.I, f[e.Ch.Pick(len(f), "long-form")])
	case Double:
		f := DoubleForms(v.F)
		if math.IsNaN(v.F) {
			f = []int{9}
		}
		e.Out = AppendDouble(e.Out, v.F, f[e.Ch.Pick(len(f), "double-form")])
	case Date:
		compactOK := v.I%60000 == 0 && v.I/60000 >= math.MinInt32 && v.I/60000 <= math.MaxInt32
		if compactOK && e.Ch.Pick(2, "date-form") == 0 && !e.NoCompactDate {
			e.Out = be(append(e.Out, 0x4b), uint64(uint32(int32(v.I/60000))), 4)
		} else {
			e.Out = be(append(e.Out, 0x4a), uint64(v.I), 8)
		}
	case String:
		e.str(v.S, "value")
	case Binary:
		e.bin(v.Bin)
	case Ref:
		e.Out = append(e.Out, 0x51)
		e.int32(int32(v.Ref), "ref")
	case List:
		typed := v.Typed
		if retypeOK && typed && e.Ch.Pick(2, "list-untype") == 1 {
			typed = false
		}
		n := len(v.Elems)
		var forms []int // 0 compact, 1 explicit count, 2 variable
		if n <= 7 {
			forms = append(forms, 0)
		}
		forms = append(forms, 1, 2)
		form := forms[e.Ch.Pick(len(forms), "list-form")]
		switch {
		case typed && form == 0:
			e.Out = append(e.Out, byte(0x70+n))
			e.typ(v.Type)
		case typed && form == 1:
			e.Out = append(e.Out, 'V')
			e.typ(v.Type)
			e.int32(int32(n), "listlen")
		case typed:
			e.Out = append(e.Out, 0x55)
			e.typ(v.Type)
		case form == 0:
			e.Out = append(e.Out, byte(0x78+n))
		case form == 1:
			e.Out = append(e.Out, 0x58)
			e.int32(int32(n), "listlen")
		default:
			e.Out = append(e.Out, 0x57)
		}
		for _, x := range v.Elems {
			e.Value(x)
		}
		if form == 2 {
			e.Out = append(e.Out, 'Z')
		}
	case Map:
		typed := v.Typed
		tname := v.Type
		if retypeOK && !typed && e.Ch.Pick(2, "map-addtype") == 1 {
			typed, tname = true, "java.util.HashMap"
		}
		if typed {
			e.Out = append(e.Out, 'M')
			e.typ(tname)
		} else {
			e.Out = append(e.Out, 'H')
		}
		for _, x := range v.Elems {
			e.Value(x)
		}
		e.Out = append(e.Out, 'Z')
	case Object:
		idx := e.classIndex(v.Class)
		if idx < 0 {
			idx = e.classDef(v.Class)
		}
		if idx <= 15 && e.Ch.Pick(2, "object-form") == 0 {
			e.Out = append(e.Out, byte(0x60+idx))
		} else {
			e.Out = append(e.Out, 'O')
			e.int32(int32(idx), "classidx")
		}
		for _, x := range v.Elems {
			e.allowRetype = true
			e.Value(x)
		}
		e.allowRetype = false
	}
}
