// Package refhessian is R1: an independent Hessian 2.0 reference codec written from the
// grammar (no code, constants or tables shared with the library under test).
package refhessian

import (
	"fmt"
	"math"
	"sort"
	"strings"
)

// Kind of an abstract value.
type Kind int

// Kinds.
const (
	Null Kind = iota
	Bool
	Int
	Long
	Double
	Date
	String
	Binary
	List
	Map
	Object
	Ref
)

func (k Kind) String() string {
	return [...]string{"null", "bool", "int", "long", "double", "date", "string", "binary", "list", "map", "object", "ref"}[k]
}

// Class is a class definition.
type Class struct {
	Name   string
	Fields []string
}

// Value is an abstract Hessian value. Containers carry the ordinal they have in
// stream order (assigned by the parser, or expected by a denotation).
type Value struct {
	K     Kind
	B     bool
	I     int64 // int, long; date in milliseconds
	F     float64
	S     string
	Bin   []byte
	Typed bool
	Type  string
	Elems []*Value // list elements; map k0,v0,k1,v1,…; object field values
	Class *Class
	Ref   int
	// Target is what a Ref resolves to.
	Target *Value
	// Ordinal is the stream ordinal of a list/map/object (-1 otherwise).
	Ordinal int

	// Wire form annotations filled by the parser.
	Octets     int   // total octets of this value's own encoding (scalars, strings, binaries)
	Chunks     []int // string: chars per chunk; binary: octets per chunk
	ChunkBytes []int // string: payload bytes per chunk
	Compact    bool  // date: minute form; list: length-in-tag form; object: short form
	Variable   bool  // list: variable-length form
	TypeByRef  bool  // list/map: type given by back-reference
	ClassIdx   int   // object: class index used
}

// N builds scalars quickly.
func NullV() *Value            { return &Value{K: Null, Ordinal: -1} }
func BoolV(b bool) *Value      { return &Value{K: Bool, B: b, Ordinal: -1} }
func IntV(i int32) *Value      { return &Value{K: Int, I: int64(i), Ordinal: -1} }
func LongV(i int64) *Value     { return &Value{K: Long, I: i, Ordinal: -1} }
func DoubleV(f float64) *Value { return &Value{K: Double, F: f, Ordinal: -1} }
func DateV(ms int64) *Value    { return &Value{K: Date, I: ms, Ordinal: -1} }
func StringV(s string) *Value  { return &Value{K: String, S: s, Ordinal: -1} }
func BinaryV(b []byte) *Value  { return &Value{K: Binary, Bin: b, Ordinal: -1} }

// String renders a value compactly (cycle safe through refs, which are not followed).
func (v *Value) String() string {
	var sb strings.Builder
	v.render(&sb, 0)
	return sb.String()
}

func (v *Value) render(sb *strings.Builder, depth int) {
	if v == nil {
		sb.WriteString("<nil>")
		return
	}
	if depth > 12 {
		sb.WriteString("…")
		return
	}
	switch v.K {
	case Null:
		sb.WriteString("null")
	case Bool:
		fmt.Fprintf(sb, "%v", v.B)
	case Int:
		fmt.Fprintf(sb, "int(%d)", v.I)
	case Long:
		fmt.Fprintf(sb, "long(%d)", v.I)
	case Double:
		fmt.Fprintf(sb, "double(%v)", v.F)
	case Date:
		fmt.Fprintf(sb, "date(%dms)", v.I)
	case String:
		if len(v.S) > 40 {
			fmt.Fprintf(sb, "str[%d bytes %q…]", len(v.S), v.S[:12])
		} else {
			fmt.Fprintf(sb, "%q", v.S)
		}
	case Binary:
		if len(v.Bin) > 16 {
			fmt.Fprintf(sb, "bin[%d]", len(v.Bin))
		} else {
			fmt.Fprintf(sb, "bin(%x)", v.Bin)
		}
	case List:
		if v.Typed {
			fmt.Fprintf(sb, "list<%s>#%d[", v.Type, v.Ordinal)
		} else {
			fmt.Fprintf(sb, "list#%d[", v.Ordinal)
		}
		for i, e := range v.Elems {
			if i > 0 {
				sb.WriteString(",")
			}
			if i >= 12 {
				fmt.Fprintf(sb, "…(%d)", len(v.Elems))
				break
			}
			e.render(sb, depth+1)
		}
		sb.WriteString("]")
	case Map:
		if v.Typed {
			fmt.Fprintf(sb, "map<%s>#%d{", v.Type, v.Ordinal)
		} else {
			fmt.Fprintf(sb, "map#%d{", v.Ordinal)
		}
		for i := 0; i+1 < len(v.Elems); i += 2 {
			if i > 0 {
				sb.WriteString(",")
			}
			v.Elems[i].render(sb, depth+1)
			sb.WriteString(":")
			v.Elems[i+1].render(sb, depth+1)
		}
		sb.WriteString("}")
	case Object:
		fmt.Fprintf(sb, "obj<%s>#%d{", v.Class.Name, v.Ordinal)
		for i, e := range v.Elems {
			if i > 0 {
				sb.WriteString(",")
			}
			if i < len(v.Class.Fields) {
				sb.WriteString(v.Class.Fields[i])
			}
			sb.WriteString("=")
			e.render(sb, depth+1)
		}
		sb.WriteString("}")
	case Ref:
		fmt.Fprintf(sb, "ref(%d)", v.Ref)
	}
}

// EqOpts tune structural comparison.
type EqOpts struct {
	NilEmpty    bool // null ≡ empty list/map, null ≡ "" / empty binary
	MapMultiset bool // compare map entries as multisets
	IgnoreTypes bool // ignore list/map type names
}

// Equal compares two abstract values structurally; refs compare by ordinal.
func Equal(a, b *Value, o EqOpts) bool { return Diff(a, b, o) == "" }

// Diff returns "" or a description of the first difference.
func Diff(a, b *Value, o EqOpts) string { return diff(a, b, o, "$", 0) }

func isEmptyish(v *Value) bool {
	switch v.K {
	case Null:
		return true
	case String:
		return v.S == ""
	case Binary:
		return len(v.Bin) == 0
	case List, Map:
		return len(v.Elems) == 0
	}
	return false
}

func diff(a, b *Value, o EqOpts, path string, depth int) string {
	if a == nil || b == nil {
		if a == b {
			return ""
		}
		return path + ": one side missing"
	}
	if o.NilEmpty && (a.K == Null || b.K == Null) && isEmptyish(a) && isEmptyish(b) {
		return ""
	}
	if a.K != b.K {
		return fmt.Sprintf("%s: kind %s vs %s (%s vs %s)", path, a.K, b.K, a, b)
	}
	switch a.K {
	case Null:
		return ""
	case Bool:
		if a.B != b.B {
			return fmt.Sprintf("%s: %v vs %v", path, a.B, b.B)
		}
	case Int, Long, Date:
		if a.I != b.I {
			return fmt.Sprintf("%s: %s %d vs %d", path, a.K, a.I, b.I)
		}
	case Double:
		if !(a.F == b.F || (math.IsNaN(a.F) && math.IsNaN(b.F))) {
			return fmt.Sprintf("%s: double %v vs %v", path, a.F, b.F)
		}
	case String:
		if a.S != b.S {
			return fmt.Sprintf("%s: string differs (len %d vs %d)", path, len(a.S), len(b.S))
		}
	case Binary:
		if string(a.Bin) != string(b.Bin) {
			return fmt.Sprintf("%s: binary differs (len %d vs %d)", path, len(a.Bin), len(b.Bin))
		}
	case Ref:
		if a.Ref != b.Ref {
			return fmt.Sprintf("%s: ref %d vs %d", path, a.Ref, b.Ref)
		}
	case List:
		if !o.IgnoreTypes && (a.Typed != b.Typed || a.Type != b.Type) {
			return fmt.Sprintf("%s: list type %v %q vs %v %q", path, a.Typed, a.Type, b.Typed, b.Type)
		}
		if len(a.Elems) != len(b.Elems) {
			return fmt.Sprintf("%s: list length %d vs %d", path, len(a.Elems), len(b.Elems))
		}
		for i := range a.Elems {
			if d := diff(a.Elems[i], b.Elems[i], o, fmt.Sprintf("%s[%d]", path, i), depth+1); d != "" {
				return d
			}
		}
	case Map:
		if !o.IgnoreTypes && (a.Typed != b.Typed || a.Type != b.Type) {
			return fmt.Sprintf("%s: map type %v %q vs %v %q", path, a.Typed, a.Type, b.Typed, b.Type)
		}
		if len(a.Elems) != len(b.Elems) {
			return fmt.Sprintf("%s: map size %d vs %d", path, len(a.Elems)/2, len(b.Elems)/2)
		}
		if o.MapMultiset {
			ea, eb := entryKeys(a), entryKeys(b)
			for i := range ea {
				if ea[i].k != eb[i].k {
					return fmt.Sprintf("%s: map entries differ: %s vs %s", path, ea[i].k, eb[i].k)
				}
				if d := diff(ea[i].v, eb[i].v, o, path+"{"+ea[i].k+"}", depth+1); d != "" {
					return d
				}
			}
			return ""
		}
		for i := range a.Elems {
			if d := diff(a.Elems[i], b.Elems[i], o, fmt.Sprintf("%s{%d}", path, i), depth+1); d != "" {
				return d
			}
		}
	case Object:
		if a.Class.Name != b.Class.Name {
			return fmt.Sprintf("%s: class %q vs %q", path, a.Class.Name, b.Class.Name)
		}
		if strings.Join(a.Class.Fields, ",") != strings.Join(b.Class.Fields, ",") {
			return fmt.Sprintf("%s: class %s fields %v vs %v", path, a.Class.Name, a.Class.Fields, b.Class.Fields)
		}
		if len(a.Elems) != len(b.Elems) {
			return fmt.Sprintf("%s: field count %d vs %d", path, len(a.Elems), len(b.Elems))
		}
		for i := range a.Elems {
			if d := diff(a.Elems[i], b.Elems[i], o, path+"."+a.Class.Fields[i], depth+1); d != "" {
				return d
			}
		}
	}
	return ""
}

type entry struct {
	k string
	v *Value
}

func entryKeys(m *Value) []entry {
	var l []entry
	for i := 0; i+1 < len(m.Elems); i += 2 {
		l = append(l, entry{m.Elems[i].String(), m.Elems[i+1]})
	}
	sort.SliceStable(l, func(i, j int) bool { return l[i].k < l[j].k })
	return l
}
