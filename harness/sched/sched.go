// Package sched is a cooperative controlled scheduler for goroutines running real library
// code that has been instrumented with statement-level points (see package instr): exactly
// one controlled thread runs at a time; at every point the running thread asks a chooser
// whether to continue (alternative 0) or hand over to another enabled thread (a preemption).
// A thread that blocks natively (channel, mutex, ...) without reaching its next point is
// detected from its goroutine state while every other controlled thread is parked.
package sched

import (
	"bytes"
	"fmt"
	"runtime"
	"strconv"
	"sync"
	"sync/atomic"
	"time"
)

// Choice is what the scheduler needs from the explorer (or from a fixed policy).
type Choice interface {
	All(n int, label string) int
	Dev(n int, label string) int
}

// Thread is one controlled goroutine.
type Thread struct {
	ID        int
	Body      func()
	gate      chan struct{}
	done      bool
	blocked   bool
	started   bool
	gid       int64
	Panic     string
	waitOn    interface{} // shimmed lock this thread waits for (deterministically disabled)
	Points    int
	lastPoint int
}

// Event is one scheduling step kept for replay files.
type Event struct {
	Thread int
	Point  int
}

// Run is one controlled execution.
type Run struct {
	mu       sync.Mutex
	Threads  []*Thread
	cur      *Thread
	ch       Choice
	steps    int64
	finished chan struct{}
	nblocked int
	// results
	Deadlock     bool
	NativeBlocks []string // "thread 1 blocked in [chan send] after point 854"
	Switches     int
	LockWaits    int     // times a thread had to wait for a shimmed lock
	Trace        []Event // thread switches only (thread, point where it resumed)
	TotalPoints  int
	KeepTrace    bool
	Hit          map[int]bool // points executed (coverage), optional
	internalErr  string
	StopOnBlock  bool
}

// New builds a run over thread bodies.
func New(ch Choice, bodies ...func()) *Run {
	r := &Run{ch: ch, finished: make(chan struct{})}
	for i, b := range bodies {
		r.Threads = append(r.Threads, &Thread{ID: i, Body: b, gate: make(chan struct{}, 1)})
	}
	return r
}

func goid() int64 {
	var buf [64]byte
	n := runtime.Stack(buf[:], false)
	// "goroutine 123 [running]:"
	b := buf[:n]
	b = bytes.TrimPrefix(b, []byte("goroutine "))
	i := bytes.IndexByte(b, ' ')
	if i < 0 {
		return -1
	}
	id, _ := strconv.ParseInt(string(b[:i]), 10, 64)
	return id
}

// goroutineState returns the wait state of a goroutine ("" if not found) and whether its
// stack shows the scheduler's own park function.
func goroutineState(gid int64) (state string, inPark bool) {
	buf := make([]byte, 1<<16)
	for {
		n := runtime.Stack(buf, true)
		if n < len(buf) {
			buf = buf[:n]
			break
		}
		buf = make([]byte, 2*len(buf))
	}
	hdr := []byte(fmt.Sprintf("goroutine %d [", gid))
	i := bytes.Index(buf, hdr)
	if i < 0 {
		return "", false
	}
	rest := buf[i+len(hdr):]
	j := bytes.IndexByte(rest, ']')
	if j < 0 {
		return "", false
	}
	state = string(rest[:j])
	if k := bytes.IndexByte([]byte(state), ','); k >= 0 {
		state = state[:k]
	}
	end := bytes.Index(rest, []byte("\n\ngoroutine "))
	if end < 0 {
		end = len(rest)
	}
	// a thread waiting inside the scheduler itself (its gate, or the scheduler's mutex while the monitor
	// inspects goroutine states) is not blocked in the code under test
	// the first frame outside runtime/sync tells where the goroutine waits
	for _, line := range bytes.Split(rest[:end], []byte("\n")) {
		if len(line) == 0 || line[0] == '\t' || bytes.HasPrefix(line, []byte("goroutine ")) {
			continue
		}
		if bytes.HasPrefix(line, []byte("runtime.")) || bytes.HasPrefix(line, []byte("sync.")) || bytes.HasPrefix(line, []byte("internal/")) || bytes.HasPrefix(line, []byte("sync/atomic.")) {
			continue
		}
		if i := bytes.IndexByte(line, ']'); i >= 0 && bytes.HasSuffix(line[:i+1], []byte("]")) && bytes.Contains(line[:i+1], []byte("[")) && !bytes.Contains(line, []byte("(")) {
			continue // remainder of the header line
		}
		inPark = bytes.HasPrefix(line, []byte("verif/harness/sched."))
		break
	}
	return state, inPark
}

func isNativeWait(state string) bool {
	switch state {
	case "chan receive", "chan send", "select", "select (no cases)", "sync.Mutex.Lock", "sync.RWMutex.Lock", "sync.RWMutex.RLock", "sync.Cond.Wait", "sync.WaitGroup.Wait",
		"chan receive (nil chan)", "chan send (nil chan)":
		return true
	}
	return false
}

// others lists the enabled threads other than t, cyclically from t.ID+1 (round-robin order).
func (r *Run) others(t *Thread) []*Thread {
	var l []*Thread
	n := len(r.Threads)
	start := 0
	if t != nil {
		start = t.ID + 1
	}
	for k := 0; k < n; k++ {
		u := r.Threads[(start+k)%n]
		if u != t && !u.done && !u.blocked && u.waitOn == nil {
			l = append(l, u)
		}
	}
	return l
}

func (r *Run) park(t *Thread) {
	<-t.gate
}

func (r *Run) wake(u *Thread, atPoint int) {
	r.cur = u
	r.Switches++
	if r.KeepTrace {
		r.Trace = append(r.Trace, Event{u.ID, atPoint})
	}
	if !u.started {
		u.started = true
		go r.runThread(u)
		return
	}
	u.gate <- struct{}{}
}

func (r *Run) runThread(t *Thread) {
	t.gid = goid()
	defer func() {
		if x := recover(); x != nil {
			t.Panic = fmt.Sprint(x)
			if t.Panic == "" {
				t.Panic = "panic"
			}
		}
		r.finish(t)
	}()
	t.Body()
}

func (r *Run) finish(t *Thread) {
	r.mu.Lock()
	t.done = true
	if t.blocked {
		t.blocked = false
		r.nblocked--
	}
	if r.cur != t {
		// a natively blocked thread that was released and ran to its end while another thread is the runner
		r.mu.Unlock()
		return
	}
	en := r.others(t)
	if len(en) == 0 {
		all := true
		for _, u := range r.Threads {
			if !u.done {
				all = false
			}
		}
		r.cur = nil
		native := false
		for _, u := range r.Threads {
			if !u.done && u.blocked {
				native = true
			}
		}
		if !all && !native {
			// every unfinished thread waits for a shimmed lock that nobody will release
			r.Deadlock = true
			r.NativeBlocks = append(r.NativeBlocks, "every unfinished thread waits for a lock whose holder has finished")
			all = true
		}
		r.mu.Unlock()
		if all {
			select {
			case <-r.finished:
			default:
				close(r.finished)
			}
		}
		// otherwise some thread is natively blocked: the monitor loop decides whether it is
		// released (it then takes over as the runner) or stuck for good (deadlock)
		return
	}
	c := 0
	if len(en) > 1 {
		c = r.ch.All(len(en), "next-after-finish")
	}
	r.wake(en[c], -1)
	r.mu.Unlock()
}

// installSyncHooks is set by the vsched build (sync stand-in present in the instrumented package).
var installSyncHooks func(r *Run) func()

// lockWait makes the running thread wait, as a deterministic scheduling operation, until free() holds.
func (r *Run) lockWait(lock interface{}, free func() bool) {
	for !free() {
		r.mu.Lock()
		t := r.cur
		if t == nil {
			r.mu.Unlock()
			return
		}
		t.waitOn = lock
		r.LockWaits++
		en := r.others(t)
		if len(en) == 0 {
			// everybody waits for a lock or is finished: deadlock
			r.Deadlock = true
			r.NativeBlocks = append(r.NativeBlocks, fmt.Sprintf("thread %d waits for a lock nobody can release (after point %d)", t.ID, t.lastPoint))
			r.cur = nil
			r.mu.Unlock()
			select {
			case <-r.finished:
			default:
				close(r.finished)
			}
			select {} // abandoned
		}
		c := 0
		if len(en) > 1 {
			c = r.ch.All(len(en), "next-after-lock-wait")
		}
		r.wake(en[c], -2)
		r.mu.Unlock()
		r.park(t)
	}
}

// release re-enables the threads waiting for a lock.
func (r *Run) release(lock interface{}) {
	for _, u := range r.Threads {
		if u.waitOn == lock {
			u.waitOn = nil
		}
	}
}

// Point is the hook body: called by instrumented code at every statement.
func (r *Run) Point(id int) {
	t := r.cur
	if r.nblocked > 0 || t == nil {
		// slow path: a released thread may be running beside the designated runner
		g := goid()
		r.mu.Lock()
		var self *Thread
		for _, u := range r.Threads {
			if u.gid == g {
				self = u
			}
		}
		if self == nil {
			r.mu.Unlock()
			return // not a controlled goroutine
		}
		if self != r.cur {
			// I was natively blocked and have been released
			if self.blocked {
				self.blocked = false
				r.nblocked--
			}
			if r.cur == nil {
				r.cur = self // nobody is running: take over
			} else {
				r.mu.Unlock()
				r.park(self) // become runnable and wait for my turn
				r.mu.Lock()
			}
		}
		t = self
		r.mu.Unlock()
	}
	atomic.AddInt64(&r.steps, 1)
	t.Points++
	t.lastPoint = id
	r.TotalPoints++
	if r.Hit != nil {
		r.Hit[id] = true
	}
	en := r.others(t)
	if len(en) == 0 {
		return
	}
	c := r.ch.Dev(1+len(en), "point")
	if c == 0 {
		return
	}
	r.mu.Lock()
	r.wake(en[c-1], id)
	r.mu.Unlock()
	r.park(t)
}

// Execute runs the threads to completion (or deadlock) and returns.
func (r *Run) Execute(hook *func(int)) {
	*hook = r.Point
	defer func() { *hook = nil }()
	if installSyncHooks != nil {
		defer installSyncHooks(r)()
	}
	r.mu.Lock()
	first := 0
	if len(r.Threads) > 1 {
		first = r.ch.All(len(r.Threads), "first-thread")
	}
	r.wake(r.Threads[first], -1)
	r.Switches = 0
	r.mu.Unlock()
	timer := time.NewTimer(200 * time.Microsecond)
	defer timer.Stop()
	var lastSteps int64 = -1
	stable := 0
	for {
		select {
		case <-r.finished:
			return
		case <-timer.C:
		}
		timer.Reset(200 * time.Microsecond)
		s := atomic.LoadInt64(&r.steps)
		if s != lastSteps {
			lastSteps = s
			stable = 0
			continue
		}
		stable++
		if stable < 2 {
			continue
		}
		// no progress: is the runner parked in a native wait?
		r.mu.Lock()
		if atomic.LoadInt64(&r.steps) != s {
			r.mu.Unlock()
			continue
		}
		cur := r.cur
		if cur != nil {
			state, inPark := goroutineState(cur.gid)
			if !isNativeWait(state) {
				r.mu.Unlock()
				continue // running or runnable: merely slow
			}
			if inPark {
				r.mu.Unlock()
				continue // inside the scheduler (e.g. waiting for r.mu held by this monitor): not a native block
			}
			cur.blocked = true
			r.nblocked++
			r.NativeBlocks = append(r.NativeBlocks, fmt.Sprintf("thread %d blocked in [%s] after point %d", cur.ID, state, cur.lastPoint))
			r.cur = nil
			if r.StopOnBlock {
				r.mu.Unlock()
				return // blocked goroutines are abandoned
			}
			if en := r.others(cur); len(en) > 0 {
				c := 0
				if len(en) > 1 {
					c = r.ch.All(len(en), "next-after-block")
				}
				r.wake(en[c], -1)
				r.mu.Unlock()
				stable = 0
				continue
			}
		}
		// nobody is running: every unfinished thread is marked blocked. If all of them still sit in a
		// native wait nobody can ever release them: deadlock. Otherwise one has been released and will
		// take over at its next point.
		stuck := false
		for _, u := range r.Threads {
			if !u.done {
				stuck = true
			}
		}
		for _, u := range r.Threads {
			if !u.done {
				if st, inSched := goroutineState(u.gid); !isNativeWait(st) || inSched {
					stuck = false
				}
			}
		}
		r.mu.Unlock()
		if stuck {
			r.Deadlock = true
			return
		}
		select {
		case <-r.finished:
			return
		default:
		}
		stable = 0
	}
}

// WaitAll waits for free-running goroutines and reports whether they all finished; it returns false
// when every unfinished one sits in a native wait state, i.e. nobody can ever release them. No
// clock takes part in the verdict.
func WaitAll(done <-chan struct{}, gids func() []int64) (finished bool, state string) {
	t := time.NewTimer(5 * time.Millisecond)
	defer t.Stop()
	strikes := 0
	for {
		select {
		case <-done:
			return true, ""
		case <-t.C:
		}
		t.Reset(5 * time.Millisecond)
		ids := gids()
		if len(ids) == 0 {
			continue
		}
		all := true
		st := ""
		for _, g := range ids {
			s, _ := goroutineState(g)
			if s == "" {
				continue // already gone
			}
			if !isNativeWait(s) {
				all = false
				break
			}
			st = s
		}
		if all && st != "" {
			strikes++
			if strikes >= 3 {
				return false, st
			}
		} else {
			strikes = 0
		}
	}
}

// Goid returns the id of the calling goroutine.
func Goid() int64 { return goid() }

// Quantum is a fixed round-robin policy: run each thread for q points, then the next one.
type Quantum struct {
	Q     int
	Start int
	count int
}

// All picks the start thread.
func (q *Quantum) All(n int, label string) int {
	if label == "first-thread" {
		return q.Start % n
	}
	return 0
}

// Dev switches to the next thread in round-robin order when the quantum is used up.
func (q *Quantum) Dev(n int, label string) int {
	q.count++
	if q.count >= q.Q {
		q.count = 0
		return 1
	}
	return 0
}
