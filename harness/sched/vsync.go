//go:build vsched

package sched

import (
	vs "github.com/vogo/gohessian/verifsync"
)

func init() {
	installSyncHooks = func(r *Run) func() {
		vs.LockHook = func(m *vs.Mutex) { r.lockWait(m, func() bool { return !m.Held }); m.Held = true }
		vs.UnlockHook = func(m *vs.Mutex) { m.Held = false; r.release(m) }
		vs.TryLockHook = func(m *vs.Mutex) bool {
			if m.Held {
				return false
			}
			m.Held = true
			return true
		}
		vs.RWHook = func(m *vs.RWMutex, op int) bool {
			switch op {
			case 0:
				r.lockWait(m, func() bool { return !m.Writer && m.Readers == 0 })
				m.Writer = true
			case 1:
				m.Writer = false
				r.release(m)
			case 2:
				r.lockWait(m, func() bool { return !m.Writer })
				m.Readers++
			case 3:
				m.Readers--
				r.release(m)
			case 4:
				if m.Writer || m.Readers > 0 {
					return false
				}
				m.Writer = true
			case 5:
				if m.Writer {
					return false
				}
				m.Readers++
			}
			return true
		}
		return func() { vs.LockHook, vs.UnlockHook, vs.TryLockHook, vs.RWHook = nil, nil, nil, nil }
	}
}
