// Package instr is the statement-level instrumenter: it copies the non-test sources of the
// package under test to a scratch directory with `verifPoint(N); ` spliced in front of every
// statement of every block, case body and select-clause body (function init excluded), and
// writes a go build -overlay file plus a point table. /repo itself is never modified.
package instr

import (
	_ "embed"
	"encoding/json"
	"fmt"
	"go/ast"
	"go/parser"
	"go/token"
	"os"
	"path/filepath"
	"sort"
	"strings"
)

// Point describes one inserted scheduling point.
type Point struct {
	ID    int      `json:"id"`
	File  string   `json:"file"`
	Line  int      `json:"line"`
	Func  string   `json:"func"`
	PkgRW []string `json:"pkg_vars,omitempty"` // package-level variables the statement mentions ("w:name" / "r:name")
}

// Result of an instrumentation run.
type Result struct {
	Points  []Point
	Overlay map[string]string
	Shimmed int // number of files whose sync import was redirected
}

//go:embed shim/verifsync.go.txt
var shimSource []byte

// ShimImport is the import path of the sync stand-in injected by the overlay.
const ShimImport = "github.com/vogo/gohessian/verifsync"

// Run instruments repoDir/*.go (non-test, not the hooks file) into outDir. With shim set, imports of
// "sync" are redirected to the stand-in package, which the overlay adds as a virtual package.
func Run(repoDir, outDir string, shim bool) (*Result, error) {
	files, err := filepath.Glob(filepath.Join(repoDir, "*.go"))
	if err != nil {
		return nil, err
	}
	sort.Strings(files)
	res := &Result{Overlay: map[string]string{}}
	fset := token.NewFileSet()
	type parsed struct {
		path string
		src  []byte
		f    *ast.File
	}
	var ps []parsed
	pkgVars := map[string]bool{}
	for _, p := range files {
		base := filepath.Base(p)
		if strings.HasSuffix(base, "_test.go") || base == "verif_hooks.go" {
			continue
		}
		src, err := os.ReadFile(p)
		if err != nil {
			return nil, err
		}
		f, err := parser.ParseFile(fset, p, src, parser.ParseComments)
		if err != nil {
			return nil, err
		}
		ps = append(ps, parsed{p, src, f})
		for _, d := range f.Decls {
			if gd, ok := d.(*ast.GenDecl); ok && gd.Tok == token.VAR {
				for _, sp := range gd.Specs {
					for _, n := range sp.(*ast.ValueSpec).Names {
						if n.Name != "_" {
							pkgVars[n.Name] = true
						}
					}
				}
			}
		}
	}
	id := 0
	for _, pf := range ps {
		type ins struct {
			off  int
			text string
		}
		var inserts []ins
		if shim {
			for _, im := range pf.f.Imports {
				if im.Path.Value == `"sync"` {
					// keep the local name "sync": only the path changes
					off := fset.Position(im.Path.Pos()).Offset
					end := fset.Position(im.Path.End()).Offset
					name := ""
					if im.Name == nil {
						name = "sync "
					}
					inserts = append(inserts, ins{off, name + `"` + ShimImport + `" /*`})
					inserts = append(inserts, ins{end, "*/"})
					res.Shimmed++
				}
			}
		}
		var visitStmts func(list []ast.Stmt, fn string)
		addPoint := func(s ast.Stmt, fn string) {
			switch s.(type) {
			case *ast.LabeledStmt, *ast.CaseClause, *ast.CommClause:
				return
			}
			id++
			pos := fset.Position(s.Pos())
			pt := Point{ID: id, File: filepath.Base(pf.path), Line: pos.Line, Func: fn}
			// package-level variables mentioned by the statement itself (not nested blocks)
			writes := map[string]bool{}
			switch x := s.(type) {
			case *ast.AssignStmt:
				for _, l := range x.Lhs {
					if root := rootIdent(l); root != "" && pkgVars[root] {
						writes[root] = true
					}
				}
			case *ast.IncDecStmt:
				if root := rootIdent(x.X); root != "" && pkgVars[root] {
					writes[root] = true
				}
			}
			seen := map[string]bool{}
			sels := map[*ast.Ident]bool{}
			ast.Inspect(s, func(n ast.Node) bool {
				switch y := n.(type) {
				case *ast.BlockStmt, *ast.FuncLit:
					return false
				case *ast.SelectorExpr:
					sels[y.Sel] = true
				case *ast.KeyValueExpr:
					if k, ok := y.Key.(*ast.Ident); ok {
						sels[k] = true
					}
				case *ast.Ident:
					if !pkgVars[y.Name] || sels[y] || seen[y.Name] {
						return true
					}
					isPkgVar := false
					if y.Obj == nil {
						isPkgVar = true // declared in another file of the package (per-file resolution leaves it unresolved)
					} else if vs, ok := y.Obj.Decl.(*ast.ValueSpec); ok && y.Obj.Kind == ast.Var && isTopLevel(pf.f, vs) {
						isPkgVar = true
					}
					if isPkgVar {
						seen[y.Name] = true
						if writes[y.Name] {
							pt.PkgRW = append(pt.PkgRW, "w:"+y.Name)
						} else {
							pt.PkgRW = append(pt.PkgRW, "r:"+y.Name)
						}
					}
				}
				return true
			})
			res.Points = append(res.Points, pt)
			inserts = append(inserts, ins{fset.Position(s.Pos()).Offset, fmt.Sprintf("verifPoint(%d); ", id)})
		}
		visitStmts = func(list []ast.Stmt, fn string) {
			for _, s := range list {
				addPoint(s, fn)
			}
		}
		for _, d := range pf.f.Decls {
			fd, ok := d.(*ast.FuncDecl)
			if !ok || fd.Body == nil || fd.Name.Name == "init" {
				continue
			}
			fn := fd.Name.Name
			if fd.Recv != nil && len(fd.Recv.List) > 0 {
				fn = typeString(fd.Recv.List[0].Type) + "." + fn
			}
			ast.Inspect(fd.Body, func(n ast.Node) bool {
				switch x := n.(type) {
				case *ast.BlockStmt:
					visitStmts(x.List, fn)
				case *ast.CaseClause:
					visitStmts(x.Body, fn)
				case *ast.CommClause:
					visitStmts(x.Body, fn)
				}
				return true
			})
		}
		sort.Slice(inserts, func(i, j int) bool { return inserts[i].off < inserts[j].off })
		var out []byte
		last := 0
		for _, in := range inserts {
			out = append(out, pf.src[last:in.off]...)
			out = append(out, in.text...)
			last = in.off
		}
		out = append(out, pf.src[last:]...)
		dst := filepath.Join(outDir, filepath.Base(pf.path))
		if err := os.WriteFile(dst, out, 0o644); err != nil {
			return nil, err
		}
		res.Overlay[pf.path] = dst
	}
	if shim {
		dst := filepath.Join(outDir, "verifsync.go")
		if err := os.WriteFile(dst, shimSource, 0o644); err != nil {
			return nil, err
		}
		res.Overlay[filepath.Join(repoDir, "verifsync", "verifsync.go")] = dst
	}
	ov, _ := json.MarshalIndent(map[string]interface{}{"Replace": res.Overlay}, "", " ")
	if err := os.WriteFile(filepath.Join(outDir, "overlay.json"), ov, 0o644); err != nil {
		return nil, err
	}
	pj, _ := json.Marshal(res.Points)
	if err := os.WriteFile(filepath.Join(outDir, "points.json"), pj, 0o644); err != nil {
		return nil, err
	}
	return res, nil
}

func isTopLevel(f *ast.File, vs *ast.ValueSpec) bool {
	for _, d := range f.Decls {
		if gd, ok := d.(*ast.GenDecl); ok {
			for _, sp := range gd.Specs {
				if sp == vs {
					return true
				}
			}
		}
	}
	// declared in another file of the package: ast.Object resolution is per file, so an
	// unresolved identifier with a package-variable name is treated as that variable by the caller
	return false
}

func rootIdent(e ast.Expr) string {
	for {
		switch x := e.(type) {
		case *ast.Ident:
			return x.Name
		case *ast.IndexExpr:
			e = x.X
		case *ast.SelectorExpr:
			e = x.X
		case *ast.StarExpr:
			e = x.X
		case *ast.ParenExpr:
			e = x.X
		default:
			return ""
		}
	}
}

func typeString(e ast.Expr) string {
	switch x := e.(type) {
	case *ast.StarExpr:
		return typeString(x.X)
	case *ast.Ident:
		return x.Name
	}
	return "?"
}
