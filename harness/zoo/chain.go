// Code generated for the verification harness; a chain of 80 distinct struct types, each reachable only through the previous one.
package zoo

type Ch00 struct {
	V int32
	N *Ch01
}
type Ch01 struct {
	V int32
	N *Ch02
}
type Ch02 struct {
	V int32
	N *Ch03
}
type Ch03 struct {
	V int32
	N *Ch04
}
type Ch04 struct {
	V int32
	N *Ch05
}
type Ch05 struct {
	V int32
	N *Ch06
}
type Ch06 struct {
	V int32
	N *Ch07
}
type Ch07 struct {
	V int32
	N *Ch08
}
type Ch08 struct {
	V int32
	N *Ch09
}
type Ch09 struct {
	V int32
	N *Ch10
}
type Ch10 struct {
	V int32
	N *Ch11
}
type Ch11 struct {
	V int32
	N *Ch12
}
type Ch12 struct {
	V int32
	N *Ch13
}
type Ch13 struct {
	V int32
	N *Ch14
}
type Ch14 struct {
	V int32
	N *Ch15
}
type Ch15 struct {
	V int32
	N *Ch16
}
type Ch16 struct {
	V int32
	N *Ch17
}
type Ch17 struct {
	V int32
	N *Ch18
}
type Ch18 struct {
	V int32
	N *Ch19
}
type Ch19 struct {
	V int32
	N *Ch20
}
type Ch20 struct {
	V int32
	N *Ch21
}
type Ch21 struct {
	V int32
	N *Ch22
}
type Ch22 struct {
	V int32
	N *Ch23
}
type Ch23 struct {
	V int32
	N *Ch24
}
type Ch24 struct {
	V int32
	N *Ch25
}
type Ch25 struct {
	V int32
	N *Ch26
}
type Ch26 struct {
	V int32
	N *Ch27
}
type Ch27 struct {
	V int32
	N *Ch28
}
type Ch28 struct {
	V int32
	N *Ch29
}
type Ch29 struct {
	V int32
	N *Ch30
}
type Ch30 struct {
	V int32
	N *Ch31
}
type Ch31 struct {
	V int32
	N *Ch32
}
type Ch32 struct {
	V int32
	N *Ch33
}
type Ch33 struct {
	V int32
	N *Ch34
}
type Ch34 struct {
	V int32
	N *Ch35
}
type Ch35 struct {
	V int32
	N *Ch36
}
type Ch36 struct {
	V int32
	N *Ch37
}
type Ch37 struct {
	V int32
	N *Ch38
}
type Ch38 struct {
	V int32
	N *Ch39
}
type Ch39 struct {
	V int32
	N *Ch40
}
type Ch40 struct {
	V int32
	N *Ch41
}
type Ch41 struct {
	V int32
	N *Ch42
}
type Ch42 struct {
	V int32
	N *Ch43
}
type Ch43 struct {
	V int32
	N *Ch44
}
type Ch44 struct {
	V int32
	N *Ch45
}
type Ch45 struct {
	V int32
	N *Ch46
}
type Ch46 struct {
	V int32
	N *Ch47
}
type Ch47 struct {
	V int32
	N *Ch48
}
type Ch48 struct {
	V int32
	N *Ch49
}
type Ch49 struct {
	V int32
	N *Ch50
}
type Ch50 struct {
	V int32
	N *Ch51
}
type Ch51 struct {
	V int32
	N *Ch52
}
type Ch52 struct {
	V int32
	N *Ch53
}
type Ch53 struct {
	V int32
	N *Ch54
}
type Ch54 struct {
	V int32
	N *Ch55
}
type Ch55 struct {
	V int32
	N *Ch56
}
type Ch56 struct {
	V int32
	N *Ch57
}
type Ch57 struct {
	V int32
	N *Ch58
}
type Ch58 struct {
	V int32
	N *Ch59
}
type Ch59 struct {
	V int32
	N *Ch60
}
type Ch60 struct {
	V int32
	N *Ch61
}
type Ch61 struct {
	V int32
	N *Ch62
}
type Ch62 struct {
	V int32
	N *Ch63
}
type Ch63 struct {
	V int32
	N *Ch64
}
type Ch64 struct {
	V int32
	N *Ch65
}
type Ch65 struct {
	V int32
	N *Ch66
}
type Ch66 struct {
	V int32
	N *Ch67
}
type Ch67 struct {
	V int32
	N *Ch68
}
type Ch68 struct {
	V int32
	N *Ch69
}
type Ch69 struct {
	V int32
	N *Ch70
}
type Ch70 struct {
	V int32
	N *Ch71
}
type Ch71 struct {
	V int32
	N *Ch72
}
type Ch72 struct {
	V int32
	N *Ch73
}
type Ch73 struct {
	V int32
	N *Ch74
}
type Ch74 struct {
	V int32
	N *Ch75
}
type Ch75 struct {
	V int32
	N *Ch76
}
type Ch76 struct {
	V int32
	N *Ch77
}
type Ch77 struct {
	V int32
	N *Ch78
}
type Ch78 struct {
	V int32
	N *Ch79
}
type Ch79 struct{ V int32 }

// ChainDepth is the number of chain types.
const ChainDepth = 80

// Interior holds pointers into the inside of other values it also holds: the first (embedded) field of a
// struct and the first element of a slice have the address of the enclosing struct / of the slice data.
type Interior struct {
	First *Base
	Whole *Embedded
	Elem  *Inner
	List  []Inner
	Again []Inner
	End   int32
}

// Twin has a namesake in package props with more fields (class names carry no package path).
type Twin struct{ A int32 }
