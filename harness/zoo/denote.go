package zoo

import (
	"fmt"
	"math"
	"reflect"
	"sort"
	"strings"
	"unsafe"

	rh "verif/harness/refhessian"
)

// Denoter maps Go values to the abstract value they should denote on the wire.
// Shared pointers map to one shared *Value node, so the result is a graph.
type Denoter struct {
	NameMap map[string]string
	memo    map[memoKey]*rh.Value
	memoLen map[*rh.Value]int
	classes map[reflect.Type]*rh.Class
	depth   int
}

type memoKey struct {
	p unsafe.Pointer
	t reflect.Type
	n int // slice length (0 for objects and maps)
}

// NewDenoter builds a denoter for a name map (nil = no names registered).
func NewDenoter(nameMap map[string]string) *Denoter {
	return &Denoter{NameMap: nameMap, memo: map[memoKey]*rh.Value{}, memoLen: map[*rh.Value]int{}, classes: map[reflect.Type]*rh.Class{}}
}

// LowerFirst lower-cases the first ASCII letter.
func LowerFirst(s string) string {
	if s != "" && s[0] >= 'A' && s[0] <= 'Z' {
		return string(s[0]+32) + s[1:]
	}
	return s
}

// GoTypeName is the Go-side key of a type in the name map.
func GoTypeName(t reflect.Type) string {
	if n := t.Name(); n != "" {
		return n
	}
	return t.String()
}

func rootElemName(t reflect.Type) string {
	for t.Kind() == reflect.Slice || t.Kind() == reflect.Array || t.Kind() == reflect.Ptr {
		t = t.Elem()
	}
	return GoTypeName(t)
}

// Denote maps an interface value.
func (d *Denoter) Denote(x interface{}) *rh.Value {
	if x == nil {
		return rh.NullV()
	}
	return d.val(reflect.ValueOf(x))
}

func (d *Denoter) class(t reflect.Type) *rh.Class {
	if c, ok := d.classes[t]; ok {
		return c
	}
	name := t.Name()
	if n, ok := d.NameMap[name]; ok {
		name = n
	}
	c := &rh.Class{Name: name}
	for i := 0; i < t.NumField(); i++ {
		c.Fields = append(c.Fields, LowerFirst(t.Field(i).Name))
	}
	d.classes[t] = c
	return c
}

func (d *Denoter) val(v reflect.Value) *rh.Value {
	d.depth++
	defer func() { d.depth-- }()
	if d.depth > 3000 {
		panic("zoo: denotation too deep")
	}
	switch v.Kind() {
	case reflect.Invalid:
		return rh.NullV()
	case reflect.Interface:
		if v.IsNil() {
			return rh.NullV()
		}
		return d.val(v.Elem())
	case reflect.Ptr:
		if v.IsNil() {
			return rh.NullV()
		}
		e := v.Elem()
		if e.Kind() == reflect.Struct && e.Type() != timeType {
			k := memoKey{unsafe.Pointer(v.Pointer()), e.Type(), 0}
			if m, ok := d.memo[k]; ok {
				return m
			}
			o := &rh.Value{K: rh.Object, Class: d.class(e.Type()), Ordinal: -1}
			d.memo[k] = o
			d.fields(o, e)
			return o
		}
		return d.val(e)
	case reflect.Bool:
		return rh.BoolV(v.Bool())
	case reflect.Int8, reflect.Int16, reflect.Int32, reflect.Int:
		return rh.IntV(int32(v.Int()))
	case reflect.Uint8, reflect.Uint16:
		return rh.IntV(int32(v.Uint()))
	case reflect.Int64:
		return rh.LongV(v.Int())
	case reflect.Uint, reflect.Uint32, reflect.Uint64:
		return rh.LongV(int64(v.Uint()))
	case reflect.Float32, reflect.Float64:
		return rh.DoubleV(v.Float())
	case reflect.String:
		return rh.StringV(v.String())
	case reflect.Struct:
		if v.Type() == timeType {
			t := v.Interface().(interface{ IsZero() bool })
			if t.IsZero() {
				return rh.NullV()
			}
			return rh.DateV(TimeMs(v))
		}
		o := &rh.Value{K: rh.Object, Class: d.class(v.Type()), Ordinal: -1}
		d.fields(o, v)
		return o
	case reflect.Slice, reflect.Array:
		if v.Type().Elem().Kind() == reflect.Uint8 {
			if v.Kind() == reflect.Slice {
				return rh.BinaryV(append([]byte{}, v.Bytes()...))
			}
		}
		if v.Kind() == reflect.Slice && v.Len() > 0 {
			// same backing array, same length, same type = the same slice header (the length is remembered
			// separately: the node may still be under construction when a cycle leads back to it)
			// (prefixes s[:2] and s[:3] of one array are different lists: the length is part of the key)
			k := memoKey{unsafe.Pointer(v.Pointer()), v.Type(), v.Len()}
			if m, ok := d.memo[k]; ok && d.memoLen[m] == v.Len() {
				return m
			}
			l := d.listHeader(v.Type())
			d.memo[k] = l
			d.memoLen[l] = v.Len()
			for i := 0; i < v.Len(); i++ {
				l.Elems = append(l.Elems, d.val(v.Index(i)))
			}
			return l
		}
		l := d.listHeader(v.Type())
		for i := 0; i < v.Len(); i++ {
			l.Elems = append(l.Elems, d.val(v.Index(i)))
		}
		return l
	case reflect.Map:
		if v.IsNil() || v.Len() == 0 {
			return rh.NullV()
		}
		k := memoKey{unsafe.Pointer(v.Pointer()), v.Type(), 0}
		if m, ok := d.memo[k]; ok {
			return m
		}
		m := &rh.Value{K: rh.Map, Ordinal: -1}
		if n, ok := d.NameMap[v.Type().Name()]; ok && v.Type().Name() != "" {
			m.Typed, m.Type = true, n
		}
		d.memo[k] = m
		// deterministic entry order (Go's map iteration order is random)
		keys := v.MapKeys()
		sort.Slice(keys, func(i, j int) bool { return fmt.Sprint(keys[i].Interface()) < fmt.Sprint(keys[j].Interface()) })
		for _, k := range keys {
			m.Elems = append(m.Elems, d.val(k), d.val(v.MapIndex(k)))
		}
		return m
	}
	panic(fmt.Sprintf("zoo: cannot denote kind %s", v.Kind()))
}

func (d *Denoter) listHeader(t reflect.Type) *rh.Value {
	l := &rh.Value{K: rh.List, Ordinal: -1}
	if n, ok := d.NameMap[GoTypeName(t)]; ok && rootElemName(t) != "interface {}" {
		l.Typed, l.Type = true, n
	}
	return l
}

func (d *Denoter) fields(o *rh.Value, s reflect.Value) {
	for i := 0; i < s.NumField(); i++ {
		o.Elems = append(o.Elems, d.val(s.Field(i)))
	}
}

// TimeMs returns the instant of a time.Time value in milliseconds since the epoch (floor).
func TimeMs(v reflect.Value) int64 {
	t := v.Interface().(interface {
		Unix() int64
		Nanosecond() int
	})
	return t.Unix()*1000 + int64(t.Nanosecond()/1000000)
}

// BisimOpts tunes the graph comparison.
type BisimOpts struct {
	NilEmpty    bool // null ≡ empty container / "" / empty binary
	IgnoreTypes bool // do not compare list/map type names and typedness
	DateSlackMs int64
	IgnoreClass bool
	WireNumbers bool // int and long compare by number (top-level widening)
	// Pairing, when non-nil, records which a-node each container of b was matched with; a
	// container of b reached again (through a reference) must be matched with the same a-node.
	Pairing map[*rh.Value]*rh.Value
}

// Bisim compares two abstract graphs (Ref nodes are followed through Target). It
// returns "" or the first difference.
func Bisim(a, b *rh.Value, o BisimOpts) string {
	seen := map[[2]*rh.Value]bool{}
	return bisim(a, b, o, "$", seen, 0)
}

func resolve(v *rh.Value) *rh.Value {
	for i := 0; v != nil && v.K == rh.Ref && i < 8; i++ {
		v = v.Target
	}
	return v
}

func emptyish(v *rh.Value) bool {
	switch v.K {
	case rh.Null:
		return true
	case rh.String:
		return v.S == ""
	case rh.Binary:
		return len(v.Bin) == 0
	case rh.List, rh.Map:
		return len(v.Elems) == 0
	}
	return false
}

func bisim(a, b *rh.Value, o BisimOpts, path string, seen map[[2]*rh.Value]bool, depth int) string {
	a, b = resolve(a), resolve(b)
	if a == nil || b == nil {
		if a == b {
			return ""
		}
		return path + ": unresolved reference"
	}
	if depth > 2500 {
		return ""
	}
	key := [2]*rh.Value{a, b}
	if o.Pairing != nil && (b.K == rh.List || b.K == rh.Map || b.K == rh.Object) && (a.K == b.K) {
		if prev, ok := o.Pairing[b]; ok && prev != a {
			return fmt.Sprintf("%s: reference resolves to container #%d, which stands for a different object of the original value", path, b.Ordinal)
		}
		o.Pairing[b] = a
	}
	if seen[key] {
		return ""
	}
	if a.K == rh.List || a.K == rh.Map || a.K == rh.Object {
		seen[key] = true
	}
	if o.NilEmpty && (a.K == rh.Null || b.K == rh.Null) && emptyish(a) && emptyish(b) {
		return ""
	}
	if o.WireNumbers && (a.K == rh.Int || a.K == rh.Long) && (b.K == rh.Int || b.K == rh.Long) {
		if a.I != b.I {
			return fmt.Sprintf("%s: number %d vs %d", path, a.I, b.I)
		}
		return ""
	}
	if a.K != b.K {
		return fmt.Sprintf("%s: %s vs %s", path, a, b)
	}
	switch a.K {
	case rh.Bool:
		if a.B != b.B {
			return fmt.Sprintf("%s: %v vs %v", path, a.B, b.B)
		}
	case rh.Int, rh.Long:
		if a.I != b.I {
			return fmt.Sprintf("%s: %s %d vs %d", path, a.K, a.I, b.I)
		}
	case rh.Date:
		d := a.I - b.I
		if d < 0 {
			d = -d
		}
		if d > o.DateSlackMs {
			return fmt.Sprintf("%s: date %dms vs %dms", path, a.I, b.I)
		}
	case rh.Double:
		if !(a.F == b.F || (math.IsNaN(a.F) && math.IsNaN(b.F))) {
			return fmt.Sprintf("%s: double %v vs %v", path, a.F, b.F)
		}
	case rh.String:
		if a.S != b.S {
			return fmt.Sprintf("%s: string %s vs %s", path, a, b)
		}
	case rh.Binary:
		if string(a.Bin) != string(b.Bin) {
			return fmt.Sprintf("%s: binary %s vs %s", path, a, b)
		}
	case rh.List:
		if !o.IgnoreTypes && (a.Typed != b.Typed || a.Type != b.Type) {
			return fmt.Sprintf("%s: list type (typed=%v %q) vs (typed=%v %q)", path, a.Typed, a.Type, b.Typed, b.Type)
		}
		if len(a.Elems) != len(b.Elems) {
			return fmt.Sprintf("%s: list length %d vs %d", path, len(a.Elems), len(b.Elems))
		}
		for i := range a.Elems {
			if d := bisim(a.Elems[i], b.Elems[i], o, fmt.Sprintf("%s[%d]", path, i), seen, depth+1); d != "" {
				return d
			}
		}
	case rh.Map:
		if !o.IgnoreTypes && (a.Typed != b.Typed || a.Type != b.Type) {
			return fmt.Sprintf("%s: map type (typed=%v %q) vs (typed=%v %q)", path, a.Typed, a.Type, b.Typed, b.Type)
		}
		if len(a.Elems) != len(b.Elems) {
			return fmt.Sprintf("%s: map size %d vs %d", path, len(a.Elems)/2, len(b.Elems)/2)
		}
		// entries as a multiset: match each entry of a with an unused bisimilar entry of b
		used := make([]bool, len(b.Elems)/2)
		// fast path: scalar keys are matched through an index
		idx := map[string][]int{}
		allScalar := true
		for j := 0; j+1 < len(b.Elems); j += 2 {
			k := resolve(b.Elems[j])
			if k == nil || k.K == rh.List || k.K == rh.Map || k.K == rh.Object {
				allScalar = false
				break
			}
			ks := keyString(k, o)
			idx[ks] = append(idx[ks], j)
		}
		if allScalar {
			for i := 0; i+1 < len(a.Elems); i += 2 {
				k := resolve(a.Elems[i])
				if k == nil || k.K == rh.List || k.K == rh.Map || k.K == rh.Object {
					return fmt.Sprintf("%s: map key %s has no counterpart", path, k)
				}
				ks := keyString(k, o)
				cands := idx[ks]
				if len(cands) == 0 {
					return fmt.Sprintf("%s: map entry with key %s has no counterpart", path, k)
				}
				j := cands[0]
				idx[ks] = cands[1:]
				if d := bisim(a.Elems[i+1], b.Elems[j+1], o, fmt.Sprintf("%s{%s}", path, k), seen, depth+1); d != "" {
					return d
				}
			}
			return ""
		}
		for i := 0; i+1 < len(a.Elems); i += 2 {
			found := false
			var firstDiff string
			for j := 0; j+1 < len(b.Elems); j += 2 {
				if used[j/2] {
					continue
				}
				s2 := map[[2]*rh.Value]bool{}
				for k, v := range seen {
					s2[k] = v
				}
				dk := bisim(a.Elems[i], b.Elems[j], o, path+"{key}", s2, depth+1)
				if dk != "" {
					continue
				}
				dv := bisim(a.Elems[i+1], b.Elems[j+1], o, fmt.Sprintf("%s{%s}", path, resolve(a.Elems[i])), s2, depth+1)
				if dv == "" {
					used[j/2] = true
					found = true
					for k, v := range s2 {
						seen[k] = v
					}
					break
				} else if firstDiff == "" {
					firstDiff = dv
				}
			}
			if !found {
				if firstDiff != "" {
					return firstDiff
				}
				return fmt.Sprintf("%s: map entry with key %s has no counterpart", path, resolve(a.Elems[i]))
			}
		}
	case rh.Object:
		if !o.IgnoreClass {
			if a.Class.Name != b.Class.Name {
				return fmt.Sprintf("%s: class %q vs %q", path, a.Class.Name, b.Class.Name)
			}
			if strings.Join(a.Class.Fields, ",") != strings.Join(b.Class.Fields, ",") {
				return fmt.Sprintf("%s: class %s fields %v vs %v", path, a.Class.Name, a.Class.Fields, b.Class.Fields)
			}
		}
		if len(a.Elems) != len(b.Elems) {
			return fmt.Sprintf("%s: field count %d vs %d", path, len(a.Elems), len(b.Elems))
		}
		for i := range a.Elems {
			fn := fmt.Sprint(i)
			if i < len(a.Class.Fields) {
				fn = a.Class.Fields[i]
			}
			if d := bisim(a.Elems[i], b.Elems[i], o, path+"."+fn, seen, depth+1); d != "" {
				return d
			}
		}
	}
	return ""
}

// Shape gives a coarse class of an abstract value position for signatures.
func Shape(v *rh.Value) string {
	v = resolve(v)
	if v == nil {
		return "?"
	}
	switch v.K {
	case rh.List:
		if v.Typed {
			return "list<" + v.Type + ">"
		}
		return "list"
	case rh.Map:
		return "map"
	case rh.Object:
		return "obj<" + v.Class.Name + ">"
	}
	return v.K.String()
}

func keyString(k *rh.Value, o BisimOpts) string {
	if o.NilEmpty && emptyish(k) {
		return "<empty>"
	}
	if o.WireNumbers && (k.K == rh.Int || k.K == rh.Long) {
		return fmt.Sprintf("num(%d)", k.I)
	}
	return k.String()
}
