// Package zoo is R2: a fixed set of declared Go types, an enumerating value generator
// driven by the choice explorer, and an independent denotation Go value -> abstract value.
package zoo

import (
	"reflect"
	"time"
)

// ---- leaf structs ----

type Inner struct {
	A int32
	S string
}

type Base struct {
	Id   int32
	Name string
}

type CustomNamed struct {
	K string
	V int64
}

func (CustomNamed) HessianCodecName() string { return "com.example.CustomNamed" }

// ---- scalars ----

type Scalars struct {
	B   bool
	I8  int8
	I16 int16
	I32 int32
	I   int
	I64 int64
	U8  uint8
	U16 uint16
	U32 uint32
	U   uint
	U64 uint64
	F32 float32
	F64 float64
	S   string
	Bin []byte
	T   time.Time
}

// Acronyms has field names whose lower-casing is not the JavaBeans "decapitalize" of the name.
type Acronyms struct {
	ID       int32
	URL      string
	HTTPPort int32
	X        int32
	AB       []string
}

// TypeTable: a typed map in front of repeated list types (the stream's type table is shared by lists and maps).
type TypeTable struct {
	M   NamedMap
	L1  []string
	L2  []string
	LM  []NamedMap
	L3  []int32
	L4  []int32
	End int32
}

// TimeThenPtrs: a date in front of pointers that may be shared.
type TimeThenPtrs struct {
	T time.Time
	P *Inner
	Q *Inner
	R *Inner
}

// HeaderFirst: a by-value struct as the FIRST field of a struct reached through a pointer (same address as the enclosing object).
type HeaderFirst struct {
	H    Inner
	X    int32
	Next *HeaderFirst
}

// IntLists: two Go slice types that share one wire type name ("[int").
type IntLists struct {
	A   []int
	B   []int32
	End int32
}

// PtrContainers holds a map and a slice directly and behind pointers (the pointer-held ones may be the very
// same map / backing array as the direct ones).
type PtrContainers struct {
	M   map[string]int32
	PM  *map[string]int32
	L   []int32
	PL  *[]int32
	PT  *time.Time
	End int32
}

// SmallIntLists: slices over small integer kinds none of which also occurs as a scalar field.
type SmallIntLists struct {
	A []int8
	B []int16
	C []uint16
}

// CustomNode is a custom-named struct that refers to itself.
type CustomNode struct {
	V    int32
	Next *CustomNode
	Kids []*CustomNode
}

func (CustomNode) HessianCodecName() string { return "com.example.CustomNode" }

// CustomSet is a named slice type with its own wire name (the java.util.HashSet idiom).
type CustomSet []int32

func (CustomSet) HessianCodecName() string { return "java.util.HashSet" }

type SlCustomSet struct {
	L   CustomSet
	End int32
}

// NamedMapOfLists: a typed map (M) whose values are containers, followed by pointers that may be shared.
type NamedMapOfLists map[string][]string

type SlNamedMapL struct {
	L   []NamedMapOfLists
	M   NamedMapOfLists
	P   *Inner
	Q   *Inner
	End int32
}

type MpStrCustom struct {
	M   map[string]CustomNamed
	End int32
}

type Embedded struct {
	Base
	X int32
}

type EmbeddedPtr struct {
	*Base
	X int32
}

type Nested struct {
	In Inner
	P  *Inner
	C  CustomNamed
	Z  int32
}

type Ptrs struct {
	P   *Inner
	Q   *Inner
	E   *EmbeddedPtr
	End int32
}

// ---- one struct per slice element kind ----

type SlBool struct {
	L   []bool
	End int32
}
type SlI8 struct {
	L   []int8
	End int32
}
type SlI16 struct {
	L   []int16
	End int32
}
type SlI32 struct {
	L   []int32
	End int32
}
type SlI struct {
	L   []int
	End int32
}
type SlI64 struct {
	L   []int64
	End int32
}
type SlU16 struct {
	L   []uint16
	End int32
}
type SlU32 struct {
	L   []uint32
	End int32
}
type SlU struct {
	L   []uint
	End int32
}
type SlU64 struct {
	L   []uint64
	End int32
}
type SlF32 struct {
	L   []float32
	End int32
}
type SlF64 struct {
	L   []float64
	End int32
}
type SlStr struct {
	L   []string
	End int32
}
type SlBin struct {
	L   [][]byte
	End int32
}
type SlTime struct {
	L   []time.Time
	End int32
}
type SlInner struct {
	L   []Inner
	End int32
}
type SlPInner struct {
	L   []*Inner
	End int32
}
type SlCustom struct {
	L   []CustomNamed
	End int32
}
type SlSlI32 struct {
	L   [][]int32
	End int32
}
type SlSlInner struct {
	L   [][]Inner
	End int32
}
type SlMap struct {
	L   []map[string]int32
	End int32
}
type SlAny struct {
	L   []interface{}
	End int32
}

// ---- one struct per map shape ----

type MpStrI32 struct {
	M   map[string]int32
	End int32
}
type MpStrI struct {
	M   map[string]int
	End int32
}
type MpStrI64 struct {
	M   map[string]int64
	End int32
}
type MpStrF64 struct {
	M   map[string]float64
	End int32
}
type MpStrBool struct {
	M   map[string]bool
	End int32
}
type MpStrStr struct {
	M   map[string]string
	End int32
}
type MpStrInner struct {
	M   map[string]Inner
	End int32
}
type MpStrPInner struct {
	M   map[string]*Inner
	End int32
}
type MpStrSl struct {
	M   map[string][]string
	End int32
}
type MpStrMp struct {
	M   map[string]map[string]int32
	End int32
}
type MpI32Str struct {
	M   map[int32]string
	End int32
}
type MpI64Str struct {
	M   map[int64]string
	End int32
}
type MpAny struct {
	M   map[interface{}]interface{}
	End int32
}

type NamedMap map[string]string

type MpNamed struct {
	M   NamedMap
	End int32
}

// ---- many classes ----

type C1 struct{ V int32 }
type C2 struct{ V int32 }
type C3 struct{ V int32 }
type C4 struct{ V int32 }
type C5 struct{ V int32 }
type C6 struct{ V int32 }
type C7 struct{ V int32 }
type C8 struct{ V int32 }
type C9 struct{ V int32 }
type C10 struct{ V int32 }
type C11 struct{ V int32 }
type C12 struct{ V int32 }
type C13 struct{ V int32 }
type C14 struct{ V int32 }
type C15 struct{ V int32 }
type C16 struct{ V int32 }
type C17 struct{ V int32 }
type C18 struct{ V int32 }
type C19 struct{ V int32 }
type C20 struct{ V int32 }

type Many struct {
	F1  C1
	F2  C2
	F3  C3
	F4  C4
	F5  C5
	F6  C6
	F7  C7
	F8  C8
	F9  C9
	F10 C10
	F11 C11
	F12 C12
	F13 C13
	F14 C14
	F15 C15
	F16 C16
	F17 C17
	F18 C18
	F19 C19
	F20 C20
	L   []C3
	M   []C17
	End int32
}

// Many3 has three classes; the third appears as a list element.
type Many3 struct {
	F1  C1
	L   []C2
	P   []*C1
	End int32
}

// ---- recursive ----

type Node struct {
	V    int32
	Next *Node
}

type Ping struct {
	V int32
	P *Pong
}

type Pong struct {
	S string
	P *Ping
}

type Tree struct {
	V    int32
	Kids []*Tree
	Meta map[string]*Tree
}

// T is a zoo entry.
type T struct {
	Name string
	Type reflect.Type
	// Top: the generated value is passed to the codec as such (not wrapped).
	Small bool // few slots: deeper deviation bounds are affordable
}

func ty(v interface{}) reflect.Type { return reflect.TypeOf(v) }

// Types is the zoo.
var Types = []T{
	{"bool", ty(false), true}, {"int8", ty(int8(0)), true}, {"int16", ty(int16(0)), true}, {"int32", ty(int32(0)), true}, {"int", ty(int(0)), true},
	{"int64", ty(int64(0)), true}, {"uint8", ty(uint8(0)), true}, {"uint16", ty(uint16(0)), true}, {"uint32", ty(uint32(0)), true}, {"uint", ty(uint(0)), true},
	{"uint64", ty(uint64(0)), true}, {"float32", ty(float32(0)), true}, {"float64", ty(float64(0)), true}, {"string", ty(""), true}, {"bytes", ty([]byte(nil)), true},
	{"time", ty(time.Time{}), true},
	{"Inner", ty(Inner{}), true}, {"*Inner", ty(&Inner{}), true}, {"CustomNamed", ty(CustomNamed{}), true},
	{"Scalars", ty(Scalars{}), false}, {"Acronyms", ty(Acronyms{}), true}, {"TypeTable", ty(TypeTable{}), true}, {"TimeThenPtrs", ty(TimeThenPtrs{}), true},
	{"*HeaderFirst", ty(&HeaderFirst{}), true}, {"*Nested", ty(&Nested{}), true}, {"IntLists", ty(IntLists{}), true}, {"SmallIntLists", ty(SmallIntLists{}), true}, {"PtrContainers", ty(PtrContainers{}), true}, {"*CustomNode", ty(&CustomNode{}), true}, {"SlNamedMapL", ty(SlNamedMapL{}), true}, {"MpStrCustom", ty(MpStrCustom{}), true}, {"SlCustomSet", ty(SlCustomSet{}), true}, {"topCustomSet", ty(CustomSet(nil)), true}, {"Embedded", ty(Embedded{}), true}, {"EmbeddedPtr", ty(EmbeddedPtr{}), true}, {"Nested", ty(Nested{}), true}, {"Ptrs", ty(Ptrs{}), true},
	{"SlBool", ty(SlBool{}), true}, {"SlI8", ty(SlI8{}), true}, {"SlI16", ty(SlI16{}), true}, {"SlI32", ty(SlI32{}), true}, {"SlI", ty(SlI{}), true}, {"SlI64", ty(SlI64{}), true},
	{"SlU16", ty(SlU16{}), true}, {"SlU32", ty(SlU32{}), true}, {"SlU", ty(SlU{}), true}, {"SlU64", ty(SlU64{}), true}, {"SlF32", ty(SlF32{}), true}, {"SlF64", ty(SlF64{}), true},
	{"SlStr", ty(SlStr{}), true}, {"SlBin", ty(SlBin{}), true}, {"SlTime", ty(SlTime{}), true}, {"SlInner", ty(SlInner{}), true}, {"SlPInner", ty(SlPInner{}), true},
	{"SlCustom", ty(SlCustom{}), true}, {"SlSlI32", ty(SlSlI32{}), true}, {"SlSlInner", ty(SlSlInner{}), true}, {"SlMap", ty(SlMap{}), true}, {"SlAny", ty(SlAny{}), true},
	{"MpStrI32", ty(MpStrI32{}), true}, {"MpStrI", ty(MpStrI{}), true}, {"MpStrI64", ty(MpStrI64{}), true}, {"MpStrF64", ty(MpStrF64{}), true}, {"MpStrBool", ty(MpStrBool{}), true},
	{"MpStrStr", ty(MpStrStr{}), true}, {"MpStrInner", ty(MpStrInner{}), true}, {"MpStrPInner", ty(MpStrPInner{}), true}, {"MpStrSl", ty(MpStrSl{}), true}, {"MpStrMp", ty(MpStrMp{}), true},
	{"MpI32Str", ty(MpI32Str{}), true}, {"MpI64Str", ty(MpI64Str{}), true}, {"MpAny", ty(MpAny{}), true}, {"MpNamed", ty(MpNamed{}), true},
	{"top[]Inner", ty([]Inner(nil)), true}, {"top[]*Inner", ty([]*Inner(nil)), true}, {"top[]string", ty([]string(nil)), true}, {"top[]int32", ty([]int32(nil)), true},
	{"top[][]string", ty([][]string(nil)), true}, {"topNamedMap", ty(NamedMap(nil)), true}, {"topMapStrStr", ty(map[string]string(nil)), true}, {"top[]any", ty([]interface{}(nil)), true},
	{"Many3", ty(Many3{}), true}, {"Many", ty(Many{}), false}, {"Node", ty(Node{}), true}, {"Ping", ty(Ping{}), true}, {"Tree", ty(Tree{}), true},
}

// ByName finds a zoo type.
func ByName(n string) *T {
	for i := range Types {
		if Types[i].Name == n {
			return &Types[i]
		}
	}
	return nil
}

// Boundary places one value of every scalar kind behind a pad of chosen length, with a long tail after
// it, so that each value can be put at every offset relative to a buffer boundary of the codec.
type Boundary struct {
	Pad  string
	I    int32
	L    int64
	F    float64
	T    time.Time
	S    string
	B    []byte
	P    *Inner
	Q    *Inner
	Tail string
}

// MapHolder is a struct with a one-entry map (many of them make many nested non-empty maps).
type MapHolder struct {
	M map[string]int32
	N int32
}

// SlMapHolder is a list of MapHolder.
type SlMapHolder struct {
	L   []MapHolder
	End int32
}
