package zoo

import (
	"fmt"
	"math"
	"reflect"
	"strings"
	"time"

	"verif/harness/explore"
)

// Picker is the part of the chooser the generator needs.
type Picker interface {
	All(n int, label string) int
	Dev(n int, label string) int
}

var _ Picker = (*explore.Chooser)(nil)

// Fixed picks nothing but defaults.
type Fixed struct{}

func (Fixed) All(int, string) int { return 0 }
func (Fixed) Dev(int, string) int { return 0 }

// RefTime is the default timestamp (whole milliseconds, not a whole second).
var RefTime = time.Date(2020, 1, 2, 3, 4, 5, 678000000, time.UTC)

func rep(s string, n int) string { return strings.Repeat(s, n) }

// Domains, default first, then simplest first.
var (
	domBool = []bool{true, false}
	domI8   = []int8{1, 0, -1, 127, -128}
	domI16  = []int16{1, 0, -1, 47, 48, 2047, 2048, -2049, 32767, -32768}
	domI32  = []int32{1, 0, -1, 47, 48, -16, -17, 2047, 2048, -2048, -2049, 262143, 262144, -262144, -262145, math.MaxInt32, math.MinInt32}
	domI    = []int{1, 0, -1, 47, 48, -17, 2048, -2049, 262144, math.MaxInt32, math.MinInt32}
	domI64  = []int64{1, 0, -1, 15, 16, -8, -9, 2047, 2048, -2049, 262143, 262144, -262145, math.MaxInt32, math.MaxInt32 + 1, math.MinInt32 - 1, math.MaxInt64, math.MinInt64}
	domU8   = []uint8{1, 0, 47, 48, 255}
	domU16  = []uint16{1, 0, 48, 2048, 65535}
	domU32  = []uint32{1, 0, 16, 2048, 262144, math.MaxInt32, math.MaxUint32}
	domU    = []uint{1, 0, 16, 2048, 1 << 40}
	domU64  = []uint64{1, 0, 16, 262144, 1 << 40, math.MaxInt64}
	domF32  = []float32{0.5, 0, 1, 2, -1, 100, 1.5e10, math.MaxFloat32, math.SmallestNonzeroFloat32, float32(math.Inf(1)), float32(math.NaN())}
	domF64  = []float64{0.5, 0, 1, 2, -1, 127, 128, -128, -129, 32767, 32768, -32769, 0.1, 1e300, math.Copysign(0, -1), math.Inf(-1), math.NaN(), math.SmallestNonzeroFloat64}
	domStr  = []string{"a", "", "b", rep("c", 31), rep("d", 32), rep("e", 1023), rep("f", 1024), "é", "中文", "x\x00y", "N", "Z", rep("g", 2100), "a\uFFFDb", "😀z"}
	domBin  = [][]byte{{1}, nil, {}, {0}, []byte(rep("\x07", 15)), []byte(rep("\x08", 16)), []byte("N"), []byte(rep("\xff", 1023)), []byte(rep("b", 1024)), []byte(rep("\x41", 5000))}
	domTime = []time.Time{RefTime, {}, time.Date(2020, 1, 2, 3, 4, 5, 0, time.UTC), time.Date(2020, 1, 2, 3, 4, 0, 0, time.UTC),
		time.Date(1969, 12, 31, 23, 58, 20, 500000000, time.UTC), time.Date(1960, 5, 6, 7, 8, 9, 0, time.UTC), time.Date(2040, 1, 1, 0, 0, 0, 0, time.UTC),
		time.Unix(0, 0).UTC(), time.Date(2020, 1, 2, 3, 4, 5, 678000000, time.FixedZone("X", 3600))}
)

// AstralOK controls whether strings with code points above U+FFFF are generated.
type Gen struct {
	P        Picker
	NoAstral bool
	// ShapeOnly: scalar leaves take their default without a choice; only pointers, slices,
	// maps and interface slots vary (witness values for map extraction)
	ShapeOnly bool
	MaxDepth  int
	stack     []reflect.Type
	ptrs      map[reflect.Type][]reflect.Value
	lastBin   reflect.Value
	lastMap   map[reflect.Type]reflect.Value // the previous non-empty map of each type (for sharing)
	lastSlice map[reflect.Type]reflect.Value // the previous non-empty slice of each type (for sharing)
	Desc      []string                       // human-readable record of the non-default choices
	keep      []interface{}
}

// NewGen builds a generator.
func NewGen(p Picker) *Gen {
	return &Gen{P: p, MaxDepth: 4, ptrs: map[reflect.Type][]reflect.Value{}}
}

func (g *Gen) note(path string, what interface{}) {
	s := fmt.Sprint(what)
	if len(s) > 24 {
		s = fmt.Sprintf("%s…(%d)", s[:12], len(s))
	}
	g.Desc = append(g.Desc, path+"="+s)
}

// Describe renders the deviations of the generated value.
func (g *Gen) Describe() string {
	if len(g.Desc) == 0 {
		return "all-default"
	}
	return strings.Join(g.Desc, " ")
}

func (g *Gen) onStack(t reflect.Type) bool {
	for _, s := range g.stack {
		if s == t {
			return true
		}
	}
	return false
}

var timeType = reflect.TypeOf(time.Time{})

// Value generates a value of type t.
func (g *Gen) Value(t reflect.Type, path string) reflect.Value {
	v := reflect.New(t).Elem()
	pick := func(n int) int {
		if g.ShapeOnly {
			switch t.Kind() {
			case reflect.Ptr, reflect.Map, reflect.Interface:
			case reflect.Slice:
				if t.Elem().Kind() == reflect.Uint8 {
					return 0
				}
			default:
				return 0
			}
		}
		i := g.P.Dev(n, path)
		return i
	}
	switch t.Kind() {
	case reflect.Bool:
		i := pick(len(domBool))
		v.SetBool(domBool[i])
		if i > 0 {
			g.note(path, domBool[i])
		}
	case reflect.Int8:
		i := pick(len(domI8))
		v.SetInt(int64(domI8[i]))
		if i > 0 {
			g.note(path, domI8[i])
		}
	case reflect.Int16:
		i := pick(len(domI16))
		v.SetInt(int64(domI16[i]))
		if i > 0 {
			g.note(path, domI16[i])
		}
	case reflect.Int32:
		i := pick(len(domI32))
		v.SetInt(int64(domI32[i]))
		if i > 0 {
			g.note(path, domI32[i])
		}
	case reflect.Int:
		i := pick(len(domI))
		v.SetInt(int64(domI[i]))
		if i > 0 {
			g.note(path, domI[i])
		}
	case reflect.Int64:
		i := pick(len(domI64))
		v.SetInt(domI64[i])
		if i > 0 {
			g.note(path, domI64[i])
		}
	case reflect.Uint8:
		i := pick(len(domU8))
		v.SetUint(uint64(domU8[i]))
		if i > 0 {
			g.note(path, domU8[i])
		}
	case reflect.Uint16:
		i := pick(len(domU16))
		v.SetUint(uint64(domU16[i]))
		if i > 0 {
			g.note(path, domU16[i])
		}
	case reflect.Uint32:
		i := pick(len(domU32))
		v.SetUint(uint64(domU32[i]))
		if i > 0 {
			g.note(path, domU32[i])
		}
	case reflect.Uint:
		i := pick(len(domU))
		v.SetUint(uint64(domU[i]))
		if i > 0 {
			g.note(path, domU[i])
		}
	case reflect.Uint64:
		i := pick(len(domU64))
		v.SetUint(domU64[i])
		if i > 0 {
			g.note(path, domU64[i])
		}
	case reflect.Float32:
		i := pick(len(domF32))
		v.SetFloat(float64(domF32[i]))
		if i > 0 {
			g.note(path, domF32[i])
		}
	case reflect.Float64:
		i := pick(len(domF64))
		v.SetFloat(domF64[i])
		if i > 0 {
			g.note(path, domF64[i])
		}
	case reflect.String:
		n := len(domStr)
		if g.NoAstral {
			n--
		}
		i := pick(n)
		v.SetString(domStr[i])
		if i > 0 {
			g.note(path, fmt.Sprintf("%q", domStr[i]))
		}
	case reflect.Struct:
		if t == timeType {
			i := pick(len(domTime))
			v.Set(reflect.ValueOf(domTime[i]))
			if i > 0 {
				g.note(path, domTime[i].Format(time.RFC3339Nano))
			}
			return v
		}
		g.stack = append(g.stack, t)
		for i := 0; i < t.NumField(); i++ {
			v.Field(i).Set(g.Value(t.Field(i).Type, path+"."+t.Field(i).Name))
		}
		g.stack = g.stack[:len(g.stack)-1]
	case reflect.Ptr:
		g.genPtr(t, v, path, pick)
	case reflect.Slice:
		if t.Elem().Kind() == reflect.Uint8 {
			// one more alternative: the very same byte slice as the previous one generated in this value
			n := len(domBin)
			if g.lastBin.IsValid() {
				n++
			}
			i := pick(n)
			if i == len(domBin) {
				v.Set(g.lastBin)
				g.note(path, "same-slice-as-previous-[]byte")
				return v
			}
			defer func() {
				if v.Len() > 0 {
					g.lastBin = v
				}
			}()
			if domBin[i] != nil {
				v.SetBytes(append([]byte{}, domBin[i]...))
				if len(domBin[i]) == 0 {
					v.Set(reflect.MakeSlice(t, 0, 0))
				}
			}
			if i > 0 {
				g.note(path, fmt.Sprintf("bin[%d]", len(domBin[i])))
			}
			return v
		}
		// 0: one element, 1: nil, 2: empty, 3: two, 4: three, 5: eight elements
		lens := []int{1, -1, 0, 2, 3, 8}
		if len(g.stack) >= g.MaxDepth {
			lens = []int{-1, 0}
		}
		shared, canShare := g.lastSlice[t]
		na := len(lens)
		if canShare {
			na++ // one more alternative: the very same slice (header) as the previous one of this type
		}
		i := pick(na)
		if i == len(lens) {
			g.note(path, "same-slice-as-previous")
			v.Set(shared)
			return v
		}
		n := lens[i]
		defer func() {
			if v.Len() > 0 {
				if g.lastSlice == nil {
					g.lastSlice = map[reflect.Type]reflect.Value{}
				}
				g.lastSlice[t] = v
			}
		}()
		if i > 0 {
			g.note(path, fmt.Sprintf("len%d", n))
		}
		if n < 0 {
			return v
		}
		s := reflect.MakeSlice(t, n, n)
		for j := 0; j < n; j++ {
			s.Index(j).Set(g.Value(t.Elem(), fmt.Sprintf("%s[%d]", path, j)))
		}
		v.Set(s)
	case reflect.Map:
		// 0: nil, 1: one entry, 2: empty, 3: two entries
		sizes := []int{-1, 1, 0, 2}
		if len(g.stack) >= g.MaxDepth {
			sizes = []int{-1, 0}
		}
		sharedM, canShareM := g.lastMap[t]
		nm := len(sizes)
		if canShareM {
			nm++ // one more alternative: the very same map as the previous one of this type
		}
		i := pick(nm)
		if i == len(sizes) {
			g.note(path, "same-map-as-previous")
			v.Set(sharedM)
			return v
		}
		n := sizes[i]
		defer func() {
			if v.Len() > 0 {
				if g.lastMap == nil {
					g.lastMap = map[reflect.Type]reflect.Value{}
				}
				g.lastMap[t] = v
			}
		}()
		if i > 0 {
			g.note(path, fmt.Sprintf("size%d", n))
		}
		if n < 0 {
			return v
		}
		m := reflect.MakeMap(t)
		for j := 0; j < n; j++ {
			k := g.key(t.Key(), j)
			m.SetMapIndex(k, g.Value(t.Elem(), fmt.Sprintf("%s{%d}", path, j)))
		}
		v.Set(m)
	case reflect.Interface:
		g.genAny(v, path, pick)
	default:
		panic("zoo: unsupported kind " + t.Kind().String())
	}
	return v
}

func (g *Gen) key(t reflect.Type, j int) reflect.Value {
	k := reflect.New(t).Elem()
	switch t.Kind() {
	case reflect.String:
		k.SetString([]string{"k", "m"}[j])
	case reflect.Int32, reflect.Int64, reflect.Int:
		k.SetInt([]int64{1, 300}[j])
	case reflect.Interface:
		k.Set(reflect.ValueOf([]interface{}{"k", int32(7)}[j]))
	default:
		panic("zoo: unsupported key kind " + t.Kind().String())
	}
	return k
}

func (g *Gen) genPtr(t reflect.Type, v reflect.Value, path string, pick func(int) int) {
	et := t.Elem()
	for et.Kind() == reflect.Ptr {
		et = et.Elem()
	}
	recursive := g.onStack(et)
	earlier := g.ptrs[t]
	// options
	type opt int
	const (
		oNil opt = iota
		oFresh
		oAlias
	)
	var opts []opt
	if recursive || len(g.stack) >= g.MaxDepth {
		opts = []opt{oNil}
		if len(g.stack) < g.MaxDepth {
			opts = append(opts, oFresh)
		}
	} else {
		opts = []opt{oFresh, oNil}
	}
	for range earlier {
		opts = append(opts, oAlias)
	}
	i := pick(len(opts))
	switch opts[i] {
	case oNil:
		if i > 0 {
			g.note(path, "nil")
		}
	case oFresh:
		if i > 0 {
			g.note(path, "fresh")
		}
		p := reflect.New(t.Elem())
		if t.Elem().Kind() == reflect.Struct && t.Elem() != timeType {
			// register before filling so that cycles (self reference) are possible
			g.ptrs[t] = append(g.ptrs[t], p)
		}
		p.Elem().Set(g.Value(t.Elem(), path+"*"))
		v.Set(p)
		g.keep = append(g.keep, p.Interface())
	case oAlias:
		k := i - (len(opts) - len(earlier))
		g.note(path, fmt.Sprintf("alias#%d", k))
		v.Set(earlier[k])
	}
}

func (g *Gen) genAny(v reflect.Value, path string, pick func(int) int) {
	// dynamic contents of an interface{} slot
	opts := []func() interface{}{
		func() interface{} { return int32(7) },
		func() interface{} { return nil },
		func() interface{} { return "s" },
		func() interface{} { return true },
		func() interface{} { return int64(1) << 40 },
		func() interface{} { return 0.5 },
		func() interface{} { return int8(3) },
		func() interface{} { return []int32{4, 5} },
		func() interface{} { return []interface{}{int32(1), "x"} },
		func() interface{} { return map[string]int32{"k": 1} },
		func() interface{} { return RefTime },
		func() interface{} { return []byte{1, 2} },
	}
	i := pick(len(opts))
	x := opts[i]()
	if i > 0 {
		g.note(path, fmt.Sprintf("%T", x))
	}
	if x != nil {
		v.Set(reflect.ValueOf(x))
	}
}

// Make generates a top-level value of a zoo type as an interface{}.
func (g *Gen) Make(t reflect.Type) interface{} {
	v := g.Value(t, "$")
	return v.Interface()
}
