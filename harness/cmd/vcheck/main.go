// vcheck: coordinator / worker / replay entry point of the verification harness.
package main

import (
	"fmt"
	"os"
	"strconv"

	"verif/harness/core"
	"verif/harness/props"
)

func usage() {
	fmt.Fprintln(os.Stderr, "usage: vcheck <id> quick|thorough | vcheck <id> --replay <path> | vcheck --list")
	os.Exit(2)
}

func main() {
	a := os.Args[1:]
	if len(a) == 0 {
		usage()
	}
	if a[0] == "--list" {
		for _, id := range core.IDs() {
			fmt.Println(id)
		}
		return
	}
	if a[0] == "--cold" {
		os.Exit(props.ColdExec(a[1:]))
	}
	if a[0] == "--worker" {
		if len(a) < 4 {
			usage()
		}
		var out, journal string
		var deadline, seed int64
		for i := 4; i+1 < len(a); i += 2 {
			switch a[i] {
			case "--out":
				out = a[i+1]
			case "--journal":
				journal = a[i+1]
			case "--deadline":
				deadline, _ = strconv.ParseInt(a[i+1], 10, 64)
			case "--seed":
				seed, _ = strconv.ParseInt(a[i+1], 10, 64)
			}
		}
		os.Exit(core.RunWorker(a[1], a[2], a[3], out, journal, deadline, seed))
	}
	if len(a) >= 3 && a[1] == "--replay" {
		os.Exit(core.Replay(a[0], a[2]))
	}
	if len(a) < 2 || (a[1] != "quick" && a[1] != "thorough") {
		usage()
	}
	os.Exit(core.Coordinate(a[0], a[1]))
}
