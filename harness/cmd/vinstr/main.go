// vinstr <repoDir> <outDir>: write statement-instrumented copies, overlay.json and points.json.
package main

import (
	"fmt"
	"os"

	"verif/harness/instr"
)

func main() {
	if len(os.Args) != 3 {
		fmt.Fprintln(os.Stderr, "usage: vinstr <repoDir> <outDir>")
		os.Exit(2)
	}
	r, err := instr.Run(os.Args[1], os.Args[2], os.Getenv("VINSTR_NOSHIM") == "")
	if err != nil {
		fmt.Fprintln(os.Stderr, "vinstr:", err)
		os.Exit(1)
	}
	fmt.Printf("%d points in %d files, %d sync imports redirected\n", len(r.Points), len(r.Overlay), r.Shimmed)
}
