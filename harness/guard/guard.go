// Package guard holds the environment seams: a no-read-ahead budgeted reader and a
// fault-injecting writer.
package guard

import (
	"errors"
	"io"
	"unicode/utf8"
)

// Runaway is the sentinel the reader panics with when the step budget is exceeded.
type Runaway struct{ Calls int }

// Reader serves bytes with no read-ahead, counts calls and enforces a step budget.
type Reader struct {
	Data   []byte
	Pos    int
	Calls  int
	Budget int // 0 = 64+16*len
	// MaxChunk, when > 0, is the most bytes one Read call returns (short reads are legal for an io.Reader)
	MaxChunk int
	// EOFWithData makes the Read call that delivers the last byte also return io.EOF (legal for an
	// io.Reader: iotest.DataErrReader, compressed and HTTP body readers behave like that)
	EOFWithData bool
	// Tripped is set when the budget was exceeded (the code under test may recover the panic)
	Tripped bool
	// Next, if set, supplies bytes lazily (environment-driven exploration): called
	// when Pos == len(Data); returns (byte, true) or (_, false) for EOF.
	Next func() (byte, bool)
}

// NewReader builds a reader over fixed data.
func NewReader(b []byte) *Reader { return &Reader{Data: b} }

func (r *Reader) step() {
	r.Calls++
	b := r.Budget
	if b == 0 {
		b = 64 + 16*len(r.Data)
	}
	if r.Calls > b {
		r.Tripped = true
		panic(Runaway{r.Calls})
	}
}

func (r *Reader) fill() bool {
	if r.Pos < len(r.Data) {
		return true
	}
	if r.Next == nil {
		return false
	}
	b, ok := r.Next()
	if !ok {
		r.Next = nil
		return false
	}
	r.Data = append(r.Data, b)
	return true
}

// Read serves at most len(p) bytes, never reading ahead.
func (r *Reader) Read(p []byte) (int, error) {
	r.step()
	if len(p) == 0 {
		return 0, nil
	}
	n := 0
	limit := len(p)
	if r.MaxChunk > 0 && limit > r.MaxChunk {
		limit = r.MaxChunk
	}
	for n < limit && r.fill() {
		p[n] = r.Data[r.Pos]
		r.Pos++
		n++
	}
	if n == 0 {
		return 0, io.EOF
	}
	if r.EOFWithData && r.Next == nil && r.Pos >= len(r.Data) {
		return n, io.EOF
	}
	return n, nil
}

// ReadRune consumes exactly the bytes of one code point.
func (r *Reader) ReadRune() (rune, int, error) {
	r.step()
	if !r.fill() {
		return 0, 0, io.EOF
	}
	b0 := r.Data[r.Pos]
	need := 1
	switch {
	case b0 < 0x80:
		need = 1
	case b0&0xe0 == 0xc0:
		need = 2
	case b0&0xf0 == 0xe0:
		need = 3
	case b0&0xf8 == 0xf0:
		need = 4
	}
	// make sure the continuation bytes are present (lazily), but stop at a non-continuation byte
	have := 1
	for have < need {
		if r.Pos+have >= len(r.Data) {
			save := r.Pos
			r.Pos = len(r.Data)
			ok := r.fill()
			r.Pos = save
			if !ok {
				break
			}
		}
		if r.Data[r.Pos+have]&0xc0 != 0x80 {
			break
		}
		have++
	}
	ru, size := utf8.DecodeRune(r.Data[r.Pos : r.Pos+have])
	if ru == utf8.RuneError && size <= 1 {
		r.Pos++
		return utf8.RuneError, 1, nil
	}
	r.Pos += size
	return ru, size, nil
}

// ByteWriter is a Writer that also implements io.ByteWriter; a WriteByte call counts as a Write call
// of one byte and is subject to the same fault.
type ByteWriter struct{ *Writer }

// WriteByte implements io.ByteWriter.
func (b ByteWriter) WriteByte(c byte) error {
	n, err := b.Writer.Write([]byte{c})
	if err == nil && n < 1 {
		return io.ErrShortWrite
	}
	return err
}

// ErrInjected is the error a faulting writer returns.
var ErrInjected = errors.New("injected write fault")

// Fault kinds.
const (
	FaultNone     = iota
	FaultOnce     // error at call k only
	FaultSticky   // error at call k and ever after
	FaultShortErr // short count + io.ErrShortWrite at k
	FaultShortNil // short count + nil error at k
	FaultZeroNil  // 0 bytes accepted + nil error at k
	FaultFullErr  // every byte accepted, and an error returned with the full count, at k
	NumFaultKinds
)

// FaultName names a fault kind.
func FaultName(k int) string {
	return [...]string{"none", "error-once", "error-sticky", "short+ErrShortWrite", "short+nil", "zero+nil", "full-count+error"}[k]
}

// Writer records writes and injects one fault.
type Writer struct {
	Buf     []byte
	Calls   int
	Sizes   []int
	FaultAt int // index of the Write call to fault (-1 none)
	Kind    int
	Max     int // maximum number of Write calls before panicking with Runaway (0 = 1<<20)
	Lost    bool // the writer returned an error or a short count for a non-empty Write
	Tripped bool
	// OnWrite, if set, runs at the start of every Write call (e.g. to force a garbage collection)
	OnWrite func()
}

// NewWriter builds a writer that never fails.
func NewWriter() *Writer { return &Writer{FaultAt: -1} }

func (w *Writer) Write(p []byte) (int, error) {
	if w.OnWrite != nil {
		w.OnWrite()
	}
	k := w.Calls
	w.Calls++
	max := w.Max
	if max == 0 {
		max = 1 << 20
	}
	if w.Calls > max {
		w.Tripped = true
		panic(Runaway{w.Calls})
	}
	w.Sizes = append(w.Sizes, len(p))
	fault := false
	switch w.Kind {
	case FaultOnce, FaultShortErr, FaultShortNil, FaultZeroNil, FaultFullErr:
		fault = k == w.FaultAt
	case FaultSticky:
		fault = w.FaultAt >= 0 && k >= w.FaultAt
	}
	if !fault || w.FaultAt < 0 {
		w.Buf = append(w.Buf, p...)
		return len(p), nil
	}
	switch w.Kind {
	case FaultOnce, FaultSticky:
		w.Lost = w.Lost || len(p) > 0
		return 0, ErrInjected
	case FaultShortErr:
		n := len(p) / 2
		w.Buf = append(w.Buf, p[:n]...)
		w.Lost = w.Lost || n < len(p)
		return n, io.ErrShortWrite
	case FaultShortNil:
		n := len(p) / 2
		w.Buf = append(w.Buf, p[:n]...)
		w.Lost = w.Lost || n < len(p)
		return n, nil
	case FaultZeroNil:
		w.Lost = w.Lost || len(p) > 0
		return 0, nil
	case FaultFullErr:
		// the writer took the bytes but reports a failure (a framing or tee writer whose own downstream failed):
		// "the destination writer returns an error" - the call has to fail
		w.Buf = append(w.Buf, p...)
		w.Lost = w.Lost || len(p) > 0
		return len(p), ErrInjected
	}
	return len(p), nil
}
