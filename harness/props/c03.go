package props

import (
	"fmt"
	"reflect"
	"strings"
	"time"

	"verif/harness/core"
	"verif/harness/explore"
	rh "verif/harness/refhessian"
	"verif/harness/zoo"
)

type pickAdapter struct{ ch *explore.Chooser }

func (p pickAdapter) Pick(n int, label string) int { return p.ch.Dev(n, label) }

// policyPick applies one encoding policy to a whole message: for a label with a listed prefix it picks the
// given option (the last one for -1), canonical otherwise.
type policyPick struct {
	name string
	m    map[string]int
}

func (p policyPick) Pick(n int, label string) int {
	for k, v := range p.m {
		if strings.HasPrefix(label, k) {
			if v < 0 || v >= n {
				return n - 1
			}
			return v
		}
	}
	return 0
}

var largePolicies = []policyPick{
	{"canonical", nil},
	{"variable-length lists", map[string]int{"list-form": -1}},
	{"untyped variable-length lists, typed maps", map[string]int{"list-form": -1, "list-untype": 1, "map-addtype": 1}},
	{"class definitions hoisted, long object form", map[string]int{"hoist-classdef": 1, "object-form": 1}},
	{"class definitions hoisted in the reverse of the order of first use", map[string]int{"hoist-classdef": 1, "hoist-order": 1}},
	{"widest number forms, full dates", map[string]int{"int-form": -1, "long-form": -1, "double-form": -1, "date-form": 1}},
	{"strings and binaries in three chunks, widest final form", map[string]int{"str-split": -1, "bin-split": -1, "str-final": -1, "bin-final": -1}},
}

func bytesContainCompactDate(v *rh.Value) bool {
	seen := map[*rh.Value]bool{}
	var f func(x *rh.Value) bool
	f = func(x *rh.Value) bool {
		if x == nil || seen[x] {
			return false
		}
		seen[x] = true
		if x.K == rh.Date && x.I%60000 == 0 {
			return true
		}
		for _, e := range x.Elems {
			if f(e) {
				return true
			}
		}
		return false
	}
	return f(v)
}

func coverChoices(c *core.Ctx, ch *explore.Chooser) {
	for _, p := range ch.Trace {
		if p.Taken != 0 {
			lab := p.Label
			if i := strings.Index(lab, ":"); i > 0 {
				lab = lab[:i]
			}
			c.Cover("choice:" + lab)
		}
	}
}

func hasObject(v *rh.Value, seen map[*rh.Value]bool) bool {
	if v == nil || seen[v] {
		return false
	}
	seen[v] = true
	if v.K == rh.Object {
		return true
	}
	for _, e := range v.Elems {
		if hasObject(e, seen) {
			return true
		}
	}
	return false
}

func countNodes(v *rh.Value, seen map[*rh.Value]bool) int {
	if v == nil || seen[v] {
		return 0
	}
	seen[v] = true
	n := 1
	for _, e := range v.Elems {
		n += countNodes(e, seen)
	}
	return n
}

// nonCanonLabels lists the labels of the non-canonical choices of an execution.
func nonCanonLabels(ch *explore.Chooser) []string {
	var l []string
	for _, p := range ch.Trace {
		if p.Taken != 0 {
			lab := p.Label
			if i := strings.Index(lab, ":"); i > 0 {
				lab = lab[:i]
			}
			l = append(l, fmt.Sprintf("%s=%d", lab, p.Taken))
		}
	}
	return l
}

func choiceShape(ch *explore.Chooser) string {
	set := map[string]bool{}
	var l []string
	for _, p := range ch.Trace {
		if p.Taken != 0 {
			lab := p.Label
			if i := strings.Index(lab, ":"); i > 0 {
				lab = lab[:i]
			}
			if !set[lab] {
				set[lab] = true
				l = append(l, lab)
			}
		}
	}
	if len(l) == 0 {
		return "canonical"
	}
	return strings.Join(l, "+")
}

// decodeAgainst decodes reference-encoded bytes with the library and compares with the expected Go value.
func decodeAgainst(c *core.Ctx, b []byte, val interface{}, tm map[string]reflect.Type, nm map[string]string, desc, shape string, choices []int) string {
	rep := func(stage, kind, msg, detail string) string {
		c.Report(&core.Violation{Stage: stage, Kind: kind, Shape: shape, Message: msgStrict(msg), Case: desc, Detail: msg + " | " + detail + " | bytes " + hexs(b), Choices: choices})
		return stage + "/" + kind
	}
	dec := Decode(b, tm)
	switch {
	case dec.Runaway:
		return rep("decode", "runaway", "reader step budget exceeded", "")
	case dec.Panic != "":
		return rep("decode", "panic", dec.Panic, "")
	case dec.Err != nil:
		return rep("decode", "error", dec.Err.Error(), "")
	}
	if dec.Consumed != len(b) {
		return rep("decode", "framing", "decoder did not consume exactly the bytes of the value", fmt.Sprintf("%d of %d", dec.Consumed, len(b)))
	}
	var a, g *rh.Value
	if p := core.Catch(func() { a = zoo.NewDenoter(nm).Denote(val); g = zoo.NewDenoter(nm).Denote(dec.Val) }); p != "" {
		return rep("compare", "undenotable", "decoded value cannot be denoted: "+p, fmt.Sprintf("%T", dec.Val))
	}
	if d := zoo.Bisim(a, g, zoo.BisimOpts{NilEmpty: true, IgnoreTypes: true}); d != "" {
		return rep("compare", "mismatch", "decoded value differs at "+diffShape(d), d)
	}
	if dec.Val != nil {
		if want, got := expectTop(val, tm, nm), reflect.TypeOf(dec.Val); want != nil && got != want {
			return rep("compare", "type", fmt.Sprintf("decoded dynamic type %v, expected %v", got, want), "")
		}
	}
	return "ok"
}

func init() {
	core.Register(&core.Prop{
		ID: "C03", Level: "model_checking",
		Rule:        "For every value of the zoo enumeration (<=1 deviating position, BMP strings) the R2 denotation is rendered by the R1 reference encoder under an explorer-driven choice vector: every int/long/double form wide enough, compact or full date, every composition of short strings/binaries into chunks (incl. empty and growing chunks) and selected splits of long ones, every final-chunk form, fixed-compact / fixed-explicit / variable lists, typed or untyped lists and maps in field position, type literal or back-reference, short or long object form, class definition in place or hoisted to the front. Values with <=3 nodes get all choice combinations (bound 8), larger ones at most 2 (quick) / 3 (thorough) non-canonical choices. Each rendering is first parsed by R1 (self-check) and then decoded by the real ToObject path and compared with the original Go value. Non-trivial = at least one non-canonical choice; distinct by (value, choice vector).",
		Assumptions: []string{"non-final binary chunks are rendered with 0x41 (collected grammar)", "typed/untyped alternation only where the destination type is static (struct fields)", "reference encoder R1 anchored by golden vectors and self round trip"},
		Units: func(tier string) []core.Unit {
			var us []core.Unit
			for i := range zoo.Types {
				t := &zoo.Types[i]
				us = append(us, core.Unit{Name: "enc:" + t.Name, Cost: 10, Run: func(c *core.Ctx) {
					// values with two deviating positions for the types where sharing needs two (a second element
					// AND "the same map / slice / pointer as before")
					zooBound := 1
					switch t.Name {
					case "SlNamedMapL", "TypeTable", "Ptrs", "TimeThenPtrs", "SlMap", "MpStrSl":
						zooBound = 2
					}
					forEachZooRaw(c, t, zooBound, true, func(zc *ZooCase) {
						tm, nm, p := Maps(zc.Val)
						if p != "" {
							return
						}
						var want *rh.Value
						if p := core.Catch(func() { want = zoo.NewDenoter(nm).Denote(zc.Val) }); p != "" {
							return
						}
						// quick: default value with <=2 non-canonical choices, one-deviation values with <=1;
						// thorough: default value <=3, one-deviation values <=2
						bound := tierPick(tier, 1, 2)
						if zc.Devs >= 2 {
							bound = tierPick(tier, 0, 1)
						}
						if zc.Devs == 0 {
							bound = tierPick(tier, 2, 3)
						}
						if t.Name == "Many" && tier == "thorough" {
							bound-- // 26 classes: the choice vector is several times longer than any other type's
						}
						if countNodes(want, map[*rh.Value]bool{}) <= 3 && !hasObject(want, map[*rh.Value]bool{}) {
							bound = 8 // small values: every combination of choices
						}
						ex := &explore.Explorer{Bound: bound}
						ex.Case = func(ch *explore.Chooser) {
							// a fresh denotation per rendering: the encoder annotates nodes
							w := zoo.NewDenoter(nm).Denote(zc.Val)
							e := rh.NewEncoder(pickAdapter{ch})
							e.Top(w)
							if !c.Begin() {
								return
							}
							desc := fmt.Sprintf("%s | encoding choices %v", zc.Desc, nonCanonLabels(ch))
							if ch.Devs() > 0 {
								c.Nontrivial(desc)
							}
							if _, err := rh.ParseOne(e.Out); err != nil {
								c.Report(&core.Violation{Stage: "selfcheck", Kind: "harness", Shape: "R1", Message: "R1 cannot parse its own rendering: " + err.Error(), Case: desc, Detail: hexs(e.Out)})
								return
							}
							// the compact date form is a known disagreement (C02-F1): when the only reason a
							// rendering fails is that form, report it under its own signature
							probe := core.NewCtx(c.Prop, c.Tier, c.Unit)
							first := decodeAgainst(probe, e.Out, zc.Val, tm, nm, desc, "", nil)
							if first == "ok" {
								c.Outcome("ok")
								coverChoices(c, ch)
								return
							}
							if bytesContainCompactDate(w) {
								e2 := rh.NewEncoder(pickAdapter{explore.ReplayOne(ch.Choices(), func(*explore.Chooser) {})})
								e2.NoCompactDate = true
								e2.Top(zoo.NewDenoter(nm).Denote(zc.Val))
								if decodeAgainst(probe, e2.Out, zc.Val, tm, nm, desc, "", nil) == "ok" {
									c.Report(&core.Violation{Stage: "decode", Kind: "mismatch", Shape: "compact-date", Message: "compact date form x4b is read as seconds; the grammar defines its payload as minutes", Case: desc, Detail: hexs(e.Out)})
									c.Outcome("compact-date")
									return
								}
							}
							out := decodeAgainst(c, e.Out, zc.Val, tm, nm, desc, t.Name+" "+choiceShape(ch), append(append([]int{}, zc.Choices...), ch.Choices()...))
							c.Outcome(out)
							coverChoices(c, ch)
							if ch.Devs() == 2 && c.WantSample() && c.Index()%13 == 1 {
								c.Sample(desc + " -> " + out)
							}
						}
						ex.Visit = func(*explore.Chooser) bool { return !c.Expired() }
						ex.Run(nil)
						c.Res.States += ex.Stats.Executions
						c.Res.Transitions += ex.Stats.Transitions
					})
					c.Cover("type:" + t.Name)
				}})
			}
			// every whole-message encoding policy (one kind of non-canonical choice taken EVERYWHERE in the message,
			// which the bounded choice vectors above reach only for tiny values) on every zoo value with <=2 deviations
			for i := range zoo.Types {
				t := &zoo.Types[i]
				us = append(us, core.Unit{Name: "policies:" + t.Name, Cost: 5, Run: func(c *core.Ctx) {
					forEachZooRaw(c, t, 2, true, func(zc *ZooCase) {
						tm, nm, p := Maps(zc.Val)
						if p != "" {
							return
						}
						for pi := 1; pi < len(largePolicies); pi++ {
							if !c.Begin() {
								continue
							}
							c.NontrivialN(1)
							c.Res.States++
							var w *rh.Value
							if p := core.Catch(func() { w = zoo.NewDenoter(nm).Denote(zc.Val) }); p != "" {
								return
							}
							e := rh.NewEncoder(largePolicies[pi])
							e.NoCompactDate = true
							e.Top(w)
							desc := zc.Desc + " | encoding policy: " + largePolicies[pi].name
							if _, err := rh.ParseOne(e.Out); err != nil {
								c.Report(&core.Violation{Stage: "selfcheck", Kind: "harness", Shape: "R1", Message: "R1 cannot parse its own rendering: " + err.Error(), Case: desc})
								continue
							}
							c.Outcome(decodeAgainst(c, e.Out, zc.Val, tm, nm, desc, "policy "+largePolicies[pi].name, zc.Choices))
						}
					})
					c.Cover("policies")
				}})
			}
			// maps of three entries one of which is null on the wire (empty string, nil pointer, zero time, nil map,
			// empty key), in every wire order of the entries, typed and untyped
			us = append(us, core.Unit{Name: "map-entry-orders", Cost: 5, Run: func(c *core.Ctx) {
				type MpStrTime struct {
					M   map[string]time.Time
					End int32
				}
				vals := []interface{}{
					&zoo.MpStrStr{M: map[string]string{"a": "x", "b": "", "c": "y"}, End: 1},
					&zoo.MpStrStr{M: map[string]string{"": "e", "b": "x", "c": ""}, End: 1},
					&zoo.MpStrPInner{M: map[string]*zoo.Inner{"a": {A: 1}, "b": nil, "c": {A: 2}}, End: 1},
					&zoo.MpStrMp{M: map[string]map[string]int32{"a": {"k": 1}, "b": nil, "c": {"k": 2}}, End: 1},
					&zoo.MpStrI32{M: map[string]int32{"": 1, "a": 2, "b": 3}, End: 1},
					&MpStrTime{M: map[string]time.Time{"a": zoo.RefTime, "b": {}, "c": zoo.RefTime.Add(time.Hour)}, End: 1},
					zoo.NamedMap{"a": "x", "b": "", "c": "y"},
					map[string]string{"a": "x", "b": "", "c": "y"},
				}
				perms := [][]int{{0, 1, 2}, {0, 2, 1}, {1, 0, 2}, {1, 2, 0}, {2, 0, 1}, {2, 1, 0}}
				for vi, val := range vals {
					tm, nm, _ := Maps(val)
					for _, perm := range perms {
						for _, pol := range []policyPick{{"canonical", nil}, {"untyped lists, typed maps", map[string]int{"list-untype": 1, "map-addtype": 1}}} {
							if !c.Begin() {
								continue
							}
							c.NontrivialN(1)
							c.Res.States++
							w := zoo.NewDenoter(nm).Denote(val)
							m := w
							if w.K == rh.Object {
								m = w.Elems[0]
							}
							if m.K != rh.Map || len(m.Elems) != 6 {
								c.Report(&core.Violation{Stage: "selfcheck", Kind: "harness", Shape: "map-entry-orders", Message: "denotation is not a three-entry map", Case: fmt.Sprint(vi)})
								continue
							}
							old := append([]*rh.Value{}, m.Elems...)
							for i, pi := range perm {
								m.Elems[2*i], m.Elems[2*i+1] = old[2*pi], old[2*pi+1]
							}
							e := rh.NewEncoder(pol)
							e.NoCompactDate = true
							e.Top(w)
							desc := fmt.Sprintf("%T value #%d with its three map entries in wire order %v, policy %s", val, vi, perm, pol.name)
							if _, err := rh.ParseOne(e.Out); err != nil {
								c.Report(&core.Violation{Stage: "selfcheck", Kind: "harness", Shape: "R1", Message: err.Error(), Case: desc})
								continue
							}
							c.Outcome(decodeAgainst(c, e.Out, val, tm, nm, desc, "map-entry-orders", nil))
						}
					}
				}
				c.Cover("map-entry-orders")
			}})
			// large messages (sizes around the structural thresholds) under one whole-message encoding policy each
			for pi, pol := range largePolicies {
				pi, pol := pi, pol
				us = append(us, core.Unit{Name: "large:" + pol.name, Cost: 100, Run: func(c *core.Ctx) {
					for _, lc := range largeCases(tier) {
						if !c.Begin() {
							continue
						}
						c.NontrivialN(1)
						c.Res.States++
						c.Res.Transitions++
						val := lc.mk()
						tm, nm, p := Maps(val)
						if p != "" {
							continue
						}
						w := zoo.NewDenoter(nm).Denote(val)
						e := rh.NewEncoder(largePolicies[pi])
						e.NoCompactDate = true
						e.Top(w)
						desc := lc.desc + " | encoding policy: " + pol.name
						if _, err := rh.ParseOne(e.Out); err != nil {
							c.Report(&core.Violation{Stage: "selfcheck", Kind: "harness", Shape: "R1", Message: "R1 cannot parse its own rendering: " + err.Error(), Case: desc})
							continue
						}
						c.Outcome(decodeAgainst(c, e.Out, val, tm, nm, desc, "large "+pol.name, nil))
					}
					c.Cover("large")
				}})
			}
			return us
		},
		RequireCover: func(string) []string {
			l := []string{"large", "policies", "map-entry-orders", "choice:hoist-order", "choice:int-form", "choice:long-form", "choice:double-form", "choice:date-form", "choice:str-split", "choice:str-final", "choice:bin-split", "choice:bin-final",
				"choice:list-form", "choice:list-untype", "choice:map-addtype", "choice:type-backref", "choice:object-form", "choice:hoist-classdef"}
			for _, t := range zoo.Types {
				l = append(l, "type:"+t.Name)
			}
			return l
		},
	})
}
