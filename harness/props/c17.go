package props

import (
	"fmt"
	"reflect"
	"strings"
	"sync"

	hessian "github.com/vogo/gohessian"

	"verif/harness/core"
	"verif/harness/explore"
	"verif/harness/sched"
)

// ownership is R3: the reference model of a pool's clients.
type ownership struct {
	held     map[uintptr]int  // object -> holder
	returned map[uintptr]bool // returned and not handed out since
	seen     map[uintptr]bool // every object ever obtained (all kept alive: addresses are not reused)
	keep     []interface{}
	factory  int
	err      string
	nils     int              // nil values the clients themselves returned and that are still in the pool
	lastNew  bool             // the object the last Get returned had never been seen before
	foreign  map[uintptr]bool // objects of another type that the clients themselves put into the pool
}

func newOwnership() *ownership {
	return &ownership{held: map[uintptr]int{}, returned: map[uintptr]bool{}, seen: map[uintptr]bool{}, foreign: map[uintptr]bool{}}
}

func objID(o interface{}) uintptr {
	v := reflect.ValueOf(o)
	if v.Kind() == reflect.Ptr {
		return v.Pointer()
	}
	return 0
}

func (w *ownership) fail(f string, a ...interface{}) {
	if w.err == "" {
		w.err = fmt.Sprintf(f, a...)
	}
}

// got records that holder obtained o; factoryBefore is the factory counter before the Get.
func (w *ownership) got(holder int, o interface{}, factoryBefore int, counting bool) {
	if o == nil {
		// a nil that a client itself returned may come back out; any other nil is a broken Get
		if w.nils > 0 {
			w.nils--
			return
		}
		w.fail("Get returned nil")
		return
	}
	id := objID(o)
	w.keep = append(w.keep, o)
	w.lastNew = !w.seen[id]
	if h, ok := w.held[id]; ok {
		w.fail("Get handed out an object that holder %d still holds", h)
		return
	}
	switch {
	case w.returned[id]:
		delete(w.returned, id)
		if counting && w.factory != factoryBefore {
			w.fail("Get called the factory although it handed out a pooled object")
		}
	case w.seen[id]:
		w.fail("Get handed out an object a second time although it was returned only once")
	default:
		if counting && w.factory != factoryBefore+1 {
			w.fail("Get returned a new object without exactly one factory call (%d calls)", w.factory-factoryBefore)
		}
	}
	w.seen[id] = true
	w.held[id] = holder
}

// giveBack is called BEFORE Pool.Return (once in the pool the object may be handed out at once).
func (w *ownership) giveBack(o interface{}) {
	id := objID(o)
	delete(w.held, id)
	w.returned[id] = true
	w.seen[id] = true
	w.keep = append(w.keep, o)
}

type poolKind struct {
	name string
	mk   func(size int, w *ownership) hessian.Pool
	typ  string
}

type poolObj struct{ n int }

type otherType struct{ pad [2]int }

var poolKinds = []poolKind{
	{"newPool(counting factory)", func(size int, w *ownership) hessian.Pool {
		return hessian.VerifNewPool(size, func() interface{} { w.factory++; return &poolObj{w.factory} })
	}, "*props.poolObj"},
	{"NewEncoderPool", func(size int, w *ownership) hessian.Pool { return hessian.NewEncoderPool(size, map[string]string{}) }, "*hessian.Encoder"},
	{"NewDecoderPool", func(size int, w *ownership) hessian.Pool {
		return hessian.NewDecoderPool(size, map[string]reflect.Type{})
	}, "*hessian.Decoder"},
	{"NewSerializerPool", func(size int, w *ownership) hessian.Pool {
		return hessian.NewSerializerPool(size, map[string]reflect.Type{}, map[string]string{})
	}, "*hessian.goHessian"},
	// without caller-supplied maps every object has maps of its own: what one holder registers is not
	// visible to another holder's fresh object
	{"NewEncoderPool(nil map)", func(size int, w *ownership) hessian.Pool { return hessian.NewEncoderPool(size, nil) }, "*hessian.Encoder"},
	{"NewDecoderPool(nil map)", func(size int, w *ownership) hessian.Pool { return hessian.NewDecoderPool(size, nil) }, "*hessian.Decoder"},
	{"NewSerializerPool(nil maps)", func(size int, w *ownership) hessian.Pool { return hessian.NewSerializerPool(size, nil, nil) }, "*hessian.goHessian"},
}

var privateSeq int

// privateMaps: for an object that Get just created in a pool built without maps, its name / type map must have
// the size a freshly constructed instance has; then an entry is registered on it (which must stay private).
func privateMaps(o interface{}) string {
	privateSeq++
	key := fmt.Sprintf("verif.Private%d", privateSeq)
	var e *hessian.Encoder
	var d *hessian.Decoder
	switch x := o.(type) {
	case *hessian.Encoder:
		e = x
	case *hessian.Decoder:
		d = x
	case hessian.Serializer:
		e, d = hessian.VerifSerializerParts(x)
	}
	if e != nil {
		_, _, fresh := hessian.VerifEncoderState(hessian.NewEncoder(nil, nil))
		if _, _, n := hessian.VerifEncoderState(e); n != fresh {
			return fmt.Sprintf("an encoder created for an empty pool already has %d name map entries (a fresh one has %d): it shares its map with an object handed out earlier", n, fresh)
		}
		e.RegisterNameType(key, "x")
	}
	if d != nil {
		_, _, _, fresh := hessian.VerifDecoderState(hessian.NewDecoder(nil, nil))
		if _, _, _, n := hessian.VerifDecoderState(d); n != fresh {
			return fmt.Sprintf("a decoder created for an empty pool already has %d type map entries (a fresh one has %d): it shares its map with an object handed out earlier", n, fresh)
		}
		d.RegisterType(key, reflect.TypeOf(0))
	}
	return ""
}

// usable checks that a pooled object works.
func usable(o interface{}) string {
	var b []byte
	var err error
	var v interface{}
	p := core.Catch(func() {
		switch x := o.(type) {
		case *hessian.Encoder:
			b, err = x.Encode(int32(300))
			if err == nil && fmt.Sprintf("%x", b) != "c92c" {
				err = fmt.Errorf("pooled encoder produced %x for int32(300)", b)
			}
		case *hessian.Decoder:
			v, err = x.Decode([]byte{0xc9, 0x2c})
			if err == nil && v != int32(300) {
				err = fmt.Errorf("pooled decoder produced %v for c92c", v)
			}
		case hessian.Serializer:
			b, err = x.ToBytes("ab")
			if err == nil {
				v, err = x.ToObject(b)
				if err == nil && v != "ab" {
					err = fmt.Errorf("pooled serializer round trip gave %v", v)
				}
			}
		case *poolObj:
		default:
			err = fmt.Errorf("unexpected object type %T", o)
		}
	})
	if p != "" {
		return "panic: " + p
	}
	if err != nil {
		return err.Error()
	}
	return ""
}

// ---- layer 1: sequential histories ---------------------------------------------------

type poolOp struct {
	kind   int // 0 get, 1 return held (index), 2 return foreign, 3 return nil, 4 return an object of another type
	holder int
	idx    int
}

func (o poolOp) String() string {
	switch o.kind {
	case 0:
		return fmt.Sprintf("h%d.Get", o.holder)
	case 1:
		return fmt.Sprintf("h%d.Return(held#%d)", o.holder, o.idx)
	}
	if o.kind == 3 {
		return fmt.Sprintf("h%d.Return(nil)", o.holder)
	}
	if o.kind == 4 {
		return fmt.Sprintf("h%d.Return(object of another type)", o.holder)
	}
	return fmt.Sprintf("h%d.Return(foreign)", o.holder)
}

// writerSpy is a destination with the optional methods buffered writers have; it records calls.
type writerSpy struct {
	calls int
	first string
}

func (w *writerSpy) note(n string) {
	if w.calls == 0 {
		w.first = n
	}
	w.calls++
}
func (w *writerSpy) Write(p []byte) (int, error) { w.note("Write"); return len(p), nil }
func (w *writerSpy) Flush() error                { w.note("Flush"); return nil }
func (w *writerSpy) Close() error                { w.note("Close"); return nil }
func (w *writerSpy) Sync() error                 { w.note("Sync"); return nil }
func (w *writerSpy) WriteByte(byte) error        { w.note("WriteByte"); return nil }
func (w *writerSpy) WriteString(s string) (int, error) {
	w.note("WriteString")
	return len(s), nil
}

type poolState struct {
	pool   hessian.Pool
	w      *ownership
	heldBy [][]interface{}
	size   int
	kind   poolKind
}

func newPoolState(k poolKind, size int) *poolState {
	w := newOwnership()
	return &poolState{pool: k.mk(size, w), w: w, heldBy: make([][]interface{}, 3), size: size, kind: k}
}

func (s *poolState) enabled() []poolOp {
	var ops []poolOp
	for h := 0; h < 3; h++ {
		if len(s.heldBy[h]) < 3 {
			ops = append(ops, poolOp{0, h, 0})
		}
		for i := range s.heldBy[h] {
			ops = append(ops, poolOp{1, h, i})
		}
	}
	ops = append(ops, poolOp{2, 0, 0}, poolOp{3, 0, 0}, poolOp{4, 0, 0})
	return ops
}

func (s *poolState) apply(op poolOp) string {
	counting := strings.HasPrefix(s.kind.name, "newPool")
	switch op.kind {
	case 0:
		idleBefore, _ := hessian.VerifPoolLen(s.pool)
		fb := s.w.factory
		var o interface{}
		if p := core.Catch(func() { o = s.pool.Get() }); p != "" {
			return "Get panicked: " + p
		}
		s.w.got(op.holder, o, fb, counting)
		if s.w.err != "" {
			return s.w.err
		}
		if o == nil {
			break // the nil a client returned earlier
		}
		if !s.w.foreign[objID(o)] {
			if got := fmt.Sprintf("%T", o); got != s.kind.typ {
				return fmt.Sprintf("Get returned %s, the pool advertises %s", got, s.kind.typ)
			}
			if idleBefore == 0 {
				if u := usable(o); u != "" {
					return "object obtained from an empty pool is not usable: " + u
				}
				if strings.Contains(s.kind.name, "nil map") && s.w.lastNew {
					if u := privateMaps(o); u != "" {
						return "object obtained from an empty pool is not fresh: " + u
					}
				}
			}
		}
		s.heldBy[op.holder] = append(s.heldBy[op.holder], o)
	case 1:
		o := s.heldBy[op.holder][op.idx]
		if op.idx == len(s.heldBy[op.holder])-1 {
			s.heldBy[op.holder] = s.heldBy[op.holder][:op.idx]
		} else {
			s.heldBy[op.holder] = append(append([]interface{}{}, s.heldBy[op.holder][:op.idx]...), s.heldBy[op.holder][op.idx+1:]...)
		}
		s.w.giveBack(o)
		// the returned encoder is attached to a destination that records every call made on it: Return has to
		// complete whatever the state of the returned object, so it may not call into the object's writer
		spy := &writerSpy{}
		if e, ok := o.(*hessian.Encoder); ok {
			e.Reset(spy)
		}
		if p := core.Catch(func() { s.pool.Return(o) }); p != "" {
			return "Return panicked: " + p
		}
		if spy.calls > 0 {
			return "Return called " + spy.first + " on the writer the returned encoder is attached to (a stalled destination would block Return)"
		}
	case 2:
		var o interface{} = &poolObj{-1}
		switch s.kind.typ {
		case "*hessian.Encoder":
			o = hessian.NewEncoder(nil, nil)
		case "*hessian.Decoder":
			o = hessian.NewDecoder(nil, nil)
		case "*hessian.goHessian":
			o = hessian.NewSerializer(nil, nil)
		}
		s.w.giveBack(o)
		if p := core.Catch(func() { s.pool.Return(o) }); p != "" {
			return "Return panicked: " + p
		}
	case 3:
		// Return must complete for any value, also nil; if the pool keeps it, a later Get may hand it out
		if p := core.Catch(func() { s.pool.Return(nil) }); p != "" {
			return "Return(nil) panicked: " + p
		}
		s.w.nils++ // the pool may keep it (then a later Get may hand it out) or drop it
	case 4:
		o := &otherType{}
		s.w.foreign[objID(o)] = true
		s.w.giveBack(o)
		if p := core.Catch(func() { s.pool.Return(o) }); p != "" {
			return "Return of an object of another type panicked: " + p
		}
	}
	idle, capacity := hessian.VerifPoolLen(s.pool)
	if idle > s.size || capacity > s.size {
		return fmt.Sprintf("pool of configured size %d retains %d objects (capacity %d)", s.size, idle, capacity)
	}
	return ""
}

func (s *poolState) key() string {
	idle, _ := hessian.VerifPoolLen(s.pool)
	return fmt.Sprintf("idle%d held%d,%d,%d fac%d", idle, len(s.heldBy[0]), len(s.heldBy[1]), len(s.heldBy[2]), s.w.factory)
}

// drain empties the pool and checks that at most size previously returned objects come out.
func (s *poolState) drain() string {
	n := 0
	for i := 0; i < s.size+3; i++ {
		var o interface{}
		if p := core.Catch(func() { o = s.pool.Get() }); p != "" {
			return "Get panicked while draining: " + p
		}
		if o == nil {
			if s.w.nils > 0 {
				s.w.nils--
				n++
				continue
			}
			return "Get returned nil while draining"
		}
		if s.w.returned[objID(o)] {
			delete(s.w.returned, objID(o))
			n++
		} else if _, held := s.w.held[objID(o)]; held {
			return "draining handed out an object that is still held"
		}
		s.w.keep = append(s.w.keep, o)
	}
	if n > s.size {
		return fmt.Sprintf("pool of size %d handed back %d previously returned objects when drained", s.size, n)
	}
	return ""
}

// ---- layer 2: schedules ------------------------------------------------------------------

var poolScripts = []string{"G", "GR", "GRG", "GGRR", "FG", "GRGR"}

// poolThread interprets a script: G = Get, R = Return the oldest held object, F = Return a foreign object.
func poolThread(id int, script string, pool hessian.Pool, w *ownership, mu *sync.Mutex, counting bool) func() {
	return func() {
		var mine []interface{}
		lock := func() {
			if mu != nil {
				mu.Lock()
			}
		}
		unlock := func() {
			if mu != nil {
				mu.Unlock()
			}
		}
		for _, c := range script {
			switch c {
			case 'G':
				lock()
				fb := w.factory
				unlock()
				o := pool.Get()
				lock()
				// under a schedule another thread's factory call may fall between: only check the identity rules
				_ = fb
				w.got(id, o, 0, false)
				unlock()
				mine = append(mine, o)
			case 'R':
				if len(mine) > 0 {
					o := mine[0]
					mine = mine[1:]
					lock()
					w.giveBack(o)
					unlock()
					pool.Return(o)
				}
			case 'F':
				o := &poolObj{-1}
				lock()
				w.giveBack(o)
				unlock()
				pool.Return(o)
			}
		}
	}
}

func init() {
	core.Register(&core.Prop{
		ID: "C17", Level: "model_checking", StallS: 90,
		Rule:        "Layer 1 (explicit-state BFS, successor by replay): all histories of {Get by holder 1..3, Return of any held object, Return of a foreign object} on pools of size 0..8 from newPool with a counting factory and from the three public constructors, to depth 2*size+4 (quick: size<=4, depth cap 10), states canonicalised as (idle count read through the verif hook, held counts, factory calls), with the ownership reference model R3 in lock-step, plus a drain after every history. Layer 2 (controlled scheduler over statement-level points spliced into pool.go): 2 threads (<=6 preemptions quick, <=10 thorough: on the current tree, whose Get and Return have 3 and 1 points, that is every interleaving) and 3 threads (<=3 / <=4 preemptions) running scripts from {G, GR, GRG, GGRR, foreign-Return+G, GRGR} on pools of size 0..2 with every initial fill, and round-robin quantum sweeps for 8/16/64 threads; a companion free-running pass under the race detector (64 goroutines). Oracle at every step: the object Get returns is held by nobody; it is new (exactly one factory call) or was returned and not handed out since; the pool never holds more than its size; an object from an empty pool is of the advertised type and works; no thread is ever natively blocked or deadlocked. Distinct = distinct canonical states (layer 1) / schedules (layer 2).",
		Assumptions: []string{"native blocking is read from the goroutine wait state while every other controlled thread is parked", "the race-detector pass is a companion (free-running), not an exhaustive method"},
		Units: func(tier string) []core.Unit {
			var us []core.Unit
			maxSize := tierPick(tier, 4, 8)
			for ki := range poolKinds {
				for size := 0; size <= maxSize; size++ {
					k, size := poolKinds[ki], size
					if ki > 0 && size > 3 && tier != "thorough" {
						continue
					}
					us = append(us, core.Unit{Name: fmt.Sprintf("histories:%s:size%d", k.name, size), Cost: 5 + size*size, Run: func(c *core.Ctx) {
						depth := 2*size + 4
						if tier != "thorough" && depth > 10 {
							depth = 10
						}
						if depth > 14 {
							depth = 14
						}
						replay := func(h []poolOp) (*poolState, string) {
							s := newPoolState(k, size)
							for _, op := range h {
								if r := s.apply(op); r != "" {
									return s, r
								}
							}
							return s, ""
						}
						seen := map[string]bool{}
						frontier := [][]poolOp{nil}
						s0, _ := replay(nil)
						seen[s0.key()] = true
						for d := 0; d < depth && len(frontier) > 0; d++ {
							var next [][]poolOp
							for _, h := range frontier {
								base, _ := replay(h)
								for _, op := range base.enabled() {
									if !c.Begin() {
										continue
									}
									c.Res.Transitions++
									nh := append(append([]poolOp{}, h...), op)
									s, r := replay(nh)
									if r == "" {
										r = s.drain()
									}
									if r != "" {
										c.Report(&core.Violation{Stage: "history", Kind: "ownership", Shape: k.name, Message: msgStrict(r), Case: fmt.Sprintf("%s size %d: %v", k.name, size, nh)})
										continue
									}
									// the drained instance is discarded; a fresh replay gives the state to extend
									s2, _ := replay(nh)
									if key := s2.key(); !seen[key] {
										seen[key] = true
										next = append(next, nh)
										c.Nontrivial(fmt.Sprintf("%s/%d/%s", k.name, size, key))
										if c.WantSample() && len(nh) == 5 {
											c.Sample(fmt.Sprintf("%s size %d: %v", k.name, size, nh))
										}
									}
								}
							}
							frontier = next
						}
						c.Res.States += int64(len(seen))
						c.Outcome("histories-ok")
						c.Cover("histories:" + k.name)
					}})
				}
			}
			// size sweep: Get size+8 objects, return them all, drain - for sizes far beyond the history search
			for ki := range poolKinds {
				k := poolKinds[ki]
				us = append(us, core.Unit{Name: "size-sweep:" + k.name, Cost: 20, Run: func(c *core.Ctx) {
					var sizes []int
					if tier == "thorough" {
						for s := 0; s <= 1100; s++ {
							sizes = append(sizes, s)
						}
						sizes = append(sizes, 4095, 4096, 4097, 65535, 65536, 65537)
					} else {
						for s := 0; s <= 40; s++ {
							sizes = append(sizes, s)
						}
						sizes = append(sizes, 63, 64, 65, 127, 128, 129, 255, 256, 257, 300, 511, 512, 513, 1000, 1023, 1024, 1025)
					}
					for _, size := range sizes {
						if !c.Begin() {
							continue
						}
						c.NontrivialN(1)
						c.Res.States++
						s := newPoolState(k, size)
						bad := ""
						for i := 0; i < size+8 && bad == ""; i++ {
							bad = s.apply(poolOp{0, 0, 0})
							c.Res.Transitions++
						}
						for len(s.heldBy[0]) > 0 && bad == "" {
							bad = s.apply(poolOp{1, 0, len(s.heldBy[0]) - 1})
							c.Res.Transitions++
						}
						if bad == "" {
							bad = s.drain()
						}
						if bad != "" {
							c.Report(&core.Violation{Stage: "size-sweep", Kind: "ownership", Shape: k.name, Message: msgStrict(bad), Case: fmt.Sprintf("%s size %d: Get x %d, Return x %d, drain", k.name, size, size+8, size+8)})
						}
					}
					c.Outcome("size-sweep-ok")
					c.Cover("size-sweep")
				}})
			}
			// layer 2
			for size := 0; size <= 2; size++ {
				for fill := 0; fill <= size; fill++ {
					size, fill := size, fill
					us = append(us, core.Unit{Name: fmt.Sprintf("sched:2threads:size%d:fill%d", size, fill), Cost: 30, Run: func(c *core.Ctx) {
						for _, a := range poolScripts {
							for _, b := range poolScripts {
								schedPool(c, size, fill, []string{a, b}, tierPick(tier, 6, 10))
							}
						}
						c.Cover("sched:2threads")
					}})
					us = append(us, core.Unit{Name: fmt.Sprintf("sched:3threads:size%d:fill%d", size, fill), Cost: 60, Run: func(c *core.Ctx) {
						scripts := poolScripts[:tierPick(tier, 3, 5)]
						for _, a := range scripts {
							for _, b := range scripts {
								for _, d := range scripts {
									schedPool(c, size, fill, []string{a, b, d}, tierPick(tier, 3, 4))
								}
							}
						}
						c.Cover("sched:3threads")
					}})
				}
			}
			us = append(us, core.Unit{Name: "sched:quantum-sweeps", Cost: 40, Run: func(c *core.Ctx) {
				for _, n := range []int{4, 8, 16, 64} {
					for size := 0; size <= 8; size += 2 {
						for q := 1; q <= 12; q++ {
							for start := 0; start < n; start += 1 + n/8 {
								if !c.Begin() {
									continue
								}
								c.NontrivialN(1)
								w := newOwnership()
								pool := hessian.VerifNewPool(size, func() interface{} { w.factory++; return &poolObj{w.factory} })
								var bodies []func()
								for t := 0; t < n; t++ {
									bodies = append(bodies, poolThread(t, poolScripts[t%len(poolScripts)], pool, w, nil, true))
								}
								r := sched.New(&sched.Quantum{Q: q, Start: start}, bodies...)
								r.StopOnBlock = true
								r.Execute(&hessian.VerifPointHook)
								c.Res.States++
								c.Res.Transitions += int64(r.TotalPoints)
								c.Res.Extra["points_executed"] += int64(r.TotalPoints)
								poolVerdict(c, r, w, pool, size, fmt.Sprintf("%d threads, pool size %d, round-robin quantum %d starting at thread %d", n, size, q, start), "quantum")
							}
						}
					}
				}
				c.Cover("sched:quantum")
			}})
			us = append(us, core.Unit{Name: "race:pool", Cost: 100, Run: func(c *core.Ctx) {
				// free-running companion pass: meaningful when this binary was built with -race (bin/check does)
				for rep := 0; rep < tierPick(tier, 20, 200); rep++ {
					for _, size := range []int{0, 1, 4, 8} {
						if !c.Begin() {
							continue
						}
						c.NontrivialN(1)
						w := newOwnership()
						var mu sync.Mutex
						pool := hessian.VerifNewPool(size, func() interface{} { mu.Lock(); w.factory++; n := w.factory; mu.Unlock(); return &poolObj{n} })
						var wg sync.WaitGroup
						var gmu sync.Mutex
						live := map[int64]bool{}
						for t := 0; t < 64; t++ {
							wg.Add(1)
							body := poolThread(t, "GRGRGGRR", pool, w, &mu, true)
							go func() {
								g := sched.Goid()
								gmu.Lock()
								live[g] = true
								gmu.Unlock()
								defer func() { gmu.Lock(); delete(live, g); gmu.Unlock(); wg.Done() }()
								body()
							}()
						}
						done := make(chan struct{})
						go func() { wg.Wait(); close(done) }()
						if fin, st := sched.WaitAll(done, func() []int64 {
							gmu.Lock()
							defer gmu.Unlock()
							var l []int64
							for g := range live {
								l = append(l, g)
							}
							return l
						}); !fin {
							c.Report(&core.Violation{Stage: "race-pass", Kind: "blocked", Shape: "free-running", Message: "pool calls blocked for good: every unfinished goroutine waits in [" + st + "]", Case: fmt.Sprintf("64 goroutines, pool size %d", size)})
							c.Stop("goroutines blocked in a pool call")
							return
						}
						if w.err != "" {
							c.Report(&core.Violation{Stage: "race-pass", Kind: "ownership", Shape: "free-running", Message: msgStrict(w.err), Case: fmt.Sprintf("64 goroutines, pool size %d", size)})
						}
						c.Res.States++
					}
				}
				c.Outcome("race-pass-ok")
				c.Cover("race:pool")
			}, Binary: "race"})
			return us
		},
		RequireCover: func(string) []string {
			return []string{"size-sweep", "histories:newPool(counting factory)", "histories:NewEncoderPool", "histories:NewSerializerPool", "sched:2threads", "sched:3threads", "sched:quantum", "race:pool", "instrumented"}
		},
	})
}

func poolVerdict(c *core.Ctx, r *sched.Run, w *ownership, pool hessian.Pool, size int, desc, shape string) bool {
	if r.TotalPoints > 0 {
		c.Cover("instrumented")
	}
	msg := ""
	kind := "ownership"
	switch {
	case len(r.NativeBlocks) > 0:
		kind, msg = "blocked", "a pool call blocked: "+stripThread(r.NativeBlocks[0])
	case r.Deadlock:
		kind, msg = "deadlock", "no enabled thread while some thread is unfinished"
	case w.err != "":
		msg = w.err
	}
	if msg == "" {
		for _, t := range r.Threads {
			if t.Panic != "" {
				kind, msg = "panic", t.Panic
			}
		}
	}
	if msg == "" {
		if idle, capacity := hessian.VerifPoolLen(pool); idle > size || capacity > size {
			msg = fmt.Sprintf("pool of configured size %d retains %d objects (capacity %d)", size, idle, capacity)
		}
	}
	if msg != "" {
		c.Report(&core.Violation{Stage: "schedule", Kind: kind, Shape: shape, Message: msgStrict(msg), Case: desc})
		if kind == "blocked" || kind == "deadlock" {
			c.Stop("a pool call blocked; the blocked goroutines cannot be reclaimed")
		}
		return false
	}
	c.Outcome("schedule-ok")
	return true
}

func stripThread(s string) string {
	if i := strings.Index(s, "blocked in"); i >= 0 {
		return s[i:]
	}
	return s
}

// schedPool explores every schedule (within a preemption bound) of the scripts on one pool configuration.
func schedPool(c *core.Ctx, size, fill int, scripts []string, bound int) {
	ex := &explore.Explorer{Bound: bound}
	desc := fmt.Sprintf("pool size %d, initially %d idle, threads %v", size, fill, scripts)
	ok := true
	ex.Case = func(ch *explore.Chooser) {
		w := newOwnership()
		pool := hessian.VerifNewPool(size, func() interface{} { w.factory++; return &poolObj{w.factory} })
		for i := 0; i < fill; i++ {
			o := &poolObj{-10 - i}
			w.giveBack(o)
			pool.Return(o)
		}
		var bodies []func()
		for t, s := range scripts {
			bodies = append(bodies, poolThread(t, s, pool, w, nil, true))
		}
		r := sched.New(ch, bodies...)
		r.StopOnBlock = true
		r.KeepTrace = true
		if !c.Begin() {
			return
		}
		r.Execute(&hessian.VerifPointHook)
		c.Res.Extra["points_executed"] += int64(r.TotalPoints)
		if !poolVerdict(c, r, w, pool, size, fmt.Sprintf("%s; schedule (thread@point) %v", desc, r.Trace), fmt.Sprintf("%d threads", len(scripts))) {
			ok = false
		}
		if ch.Devs() > 0 {
			c.NontrivialN(1)
			if c.WantSample() && ch.Devs() == 2 {
				c.Sample(fmt.Sprintf("%s; switches %v", desc, r.Trace))
			}
		}
	}
	ex.Visit = func(*explore.Chooser) bool { return ok && !c.Expired() }
	runTolerant(c, ex, desc)
	c.Res.States += ex.Stats.Executions
	c.Res.Transitions += ex.Stats.Transitions
}
