package props

import (
	"fmt"
	"time"

	"verif/harness/core"
)

// TimePos carries a timestamp at the non-top positions.
type TimePos struct {
	T   time.Time
	L   []time.Time
	End int32
}

func timeShape(t time.Time) string {
	switch {
	case t.IsZero():
		return "zero"
	case t.Year() < 1678:
		return "before-1678"
	case t.Year() > 2262:
		return "after-2262"
	case t.Unix() < -(1 << 31):
		return "before-2^31s"
	case t.Unix() >= 1<<31:
		return "after-2^31s"
	case t.Unix() < 0:
		return "pre-1970"
	}
	return "post-1970"
}

func sameInstant(orig, got time.Time) bool {
	if orig.Nanosecond()%1000000 == 0 {
		return got.Equal(orig)
	}
	d := got.Sub(orig)
	if d < 0 {
		d = -d
	}
	return d < time.Millisecond
}

func checkTime(c *core.Ctx, t time.Time, positions bool) {
	if !c.Begin() {
		return
	}
	c.NontrivialN(1)
	sub := ""
	if t.Nanosecond()%1000000 != 0 {
		sub = " sub-ms"
	} else if t.Nanosecond() != 0 {
		sub = " ms"
	}
	report := func(pos, stage, kind, msg, detail string) {
		c.Report(&core.Violation{Stage: stage, Kind: kind, Shape: pos + " " + timeShape(t) + sub, Message: msgClass(msg), Case: t.Format(time.RFC3339Nano) + " at " + pos, Detail: detail})
	}
	enc := Encode(t, nil)
	if !enc.OK() {
		report("top", "encode", "error", fmt.Sprint(enc.Err, enc.Panic), "")
		return
	}
	dec := Decode(enc.Bytes, nil)
	if !dec.OK() {
		report("top", "decode", "error", fmt.Sprint(dec.Err, dec.Panic), hexs(enc.Bytes))
		return
	}
	if t.IsZero() {
		if dec.Val != nil {
			if g, ok := dec.Val.(time.Time); !ok || !g.IsZero() {
				report("top", "decode", "mismatch", "zero timestamp does not come back as null / zero", fmt.Sprintf("%T %v", dec.Val, dec.Val))
			}
		}
	} else {
		g, ok := dec.Val.(time.Time)
		if !ok || !sameInstant(t, g) {
			report("top", "decode", "mismatch", "decoded instant differs", fmt.Sprintf("bytes %x decoded %T %v", enc.Bytes, dec.Val, dec.Val))
			return
		}
	}
	if !positions {
		c.Outcome("top-exact")
		return
	}
	h := &TimePos{T: t, L: []time.Time{t, time.Unix(1, 0), t}, End: 4}
	tm, nm, _ := Maps(h)
	enc = Encode(h, nm)
	if !enc.OK() {
		report("struct", "encode", "error", fmt.Sprint(enc.Err, enc.Panic), "")
		return
	}
	dec = Decode(enc.Bytes, tm)
	if !dec.OK() {
		report("struct", "decode", "error", fmt.Sprint(dec.Err, dec.Panic), hexs(enc.Bytes))
		return
	}
	d, ok := dec.Val.(*TimePos)
	if !ok {
		report("struct", "decode", "type", fmt.Sprintf("%T", dec.Val), "")
		return
	}
	okT := func(g time.Time) bool {
		if t.IsZero() {
			return g.IsZero()
		}
		return sameInstant(t, g)
	}
	switch {
	case !okT(d.T):
		report("field", "decode", "mismatch", "decoded instant differs", fmt.Sprintf("field %v", d.T))
	case len(d.L) != 3 || !okT(d.L[0]) || !d.L[1].Equal(time.Unix(1, 0)) || !okT(d.L[2]):
		report("element", "decode", "mismatch", "decoded instant differs", fmt.Sprintf("list %v", d.L))
	case d.End != 4:
		report("struct", "decode", "mismatch", "field after the timestamps disturbed", "")
	default:
		c.Outcome("all-positions-exact")
	}
	// the same timestamp behind one pointer held by two fields, and behind two pointers
	tt, t2 := t, t
	for _, ph := range []*TimePtrPos{{A: &tt, B: &tt, N: 6}, {A: &tt, B: &t2, N: 6}, {A: nil, B: &tt, N: 6}} {
		ptm, pnm, _ := Maps(ph)
		enc = Encode(ph, pnm)
		if !enc.OK() {
			report("pointer", "encode", "error", fmt.Sprint(enc.Err, enc.Panic), "")
			return
		}
		dec = Decode(enc.Bytes, ptm)
		if !dec.OK() {
			report("pointer", "decode", "error", fmt.Sprint(dec.Err, dec.Panic), hexs(enc.Bytes))
			return
		}
		dp, ok := dec.Val.(*TimePtrPos)
		okP := func(orig, g *time.Time) bool {
			if orig == nil || t.IsZero() {
				return g == nil || g.IsZero()
			}
			return g != nil && sameInstant(t, *g)
		}
		if !ok || !okP(ph.A, dp.A) || !okP(ph.B, dp.B) || dp.N != 6 {
			report("pointer", "decode", "mismatch", "timestamp behind a pointer field differs", fmt.Sprintf("%+v | %s", dec.Val, hexs(enc.Bytes)))
			return
		}
	}
	c.Outcome("pointer-fields-exact")
}

// TimePtrPos holds timestamps behind pointers.
type TimePtrPos struct {
	A *time.Time
	B *time.Time
	N int32
}

func init() {
	core.Register(&core.Prop{
		ID: "C10", Level: "model_checking",
		Rule:        "Exhaustive enumeration of instants, each through the real encoder/decoder at top level, in a struct field and in []time.Time: every millisecond in +-2 s windows around the epoch, +-2^31 s, +-2^32 s, the int64-nanosecond limits (1677-09-21, 2262-04-11), 0001-01-01 and 9999-12-31T23:59:59.999; seven instants in every year 1..9999; sub-millisecond offsets {1, 499999, 500000, 999999 ns} at each boundary; the zero time; (thorough) every millisecond in +-120 s windows around the same boundaries, every whole minute of 1969-12-31..1970-01-02 and every second of the two 2^31 windows +-1h. Oracle: whole-millisecond instants decode Equal, finer ones less than 1 ms away, zero time comes back zero. Distinct by construction.",
		Assumptions: []string{"*time.Time fields are exercised in one holder (same pointer twice, two pointers, nil + pointer); a nil *time.Time and a pointer to the zero time are identified"},
		Units: func(tier string) []core.Unit {
			var us []core.Unit
			bounds := []time.Time{time.Unix(0, 0), time.Unix(1<<31, 0), time.Unix(-(1 << 31), 0), time.Unix(1<<32, 0), time.Unix(-(1 << 32), 0),
				time.Date(1677, 9, 21, 0, 12, 43, 145224192, time.UTC), time.Date(2262, 4, 11, 23, 47, 16, 854775807, time.UTC),
				time.Date(1, 1, 1, 0, 0, 2, 0, time.UTC), time.Date(9999, 12, 31, 23, 59, 57, 999000000, time.UTC)}
			for bi, b := range bounds {
				b := b.UTC()
				if tier == "thorough" {
					// every millisecond of the two minutes before and after each boundary, in 8 shards
					for part := 0; part < 8; part++ {
						part := part
						us = append(us, core.Unit{Name: fmt.Sprintf("wide-window-%d:%d", bi, part), Cost: 30, Run: func(c *core.Ctx) {
							base := b.Truncate(time.Second)
							for ms := -120000 + part; ms <= 120000; ms += 8 {
								t := base.Add(time.Duration(ms) * time.Millisecond)
								if t.Year() < 1 || t.Year() > 9999 {
									continue
								}
								checkTime(c, t, ms%1000 == 0)
							}
						}})
					}
				}
				us = append(us, core.Unit{Name: fmt.Sprintf("window-%d", bi), Cost: 20, Run: func(c *core.Ctx) {
					base := b.Truncate(time.Second)
					for ms := -2000; ms <= 2000; ms++ {
						checkTime(c, base.Add(time.Duration(ms)*time.Millisecond), ms%50 == 0)
					}
					for _, ns := range []int{1, 499999, 500000, 999999} {
						for _, ms := range []int{-1001, -1000, -1, 0, 1, 999, 1000} {
							checkTime(c, base.Add(time.Duration(ms)*time.Millisecond+time.Duration(ns)), true)
						}
					}
					c.Cover(fmt.Sprintf("window-%d", bi))
					c.Sample(base.Format(time.RFC3339Nano) + " +-2000 ms")
				}})
			}
			for part := 0; part < 4; part++ {
				part := part
				us = append(us, core.Unit{Name: fmt.Sprintf("years-%d", part), Cost: 30, Run: func(c *core.Ctx) {
					for y := 1 + part; y <= 9999; y += 4 {
						j := time.Date(y, 1, 1, 0, 0, 0, 0, time.UTC)
						for _, t := range []time.Time{j, j.Add(time.Millisecond), j.Add(999 * time.Millisecond), j.Add(time.Second), j.Add(59 * time.Second), j.Add(60 * time.Second),
							time.Date(y, 12, 31, 23, 59, 59, 999000000, time.UTC)} {
							checkTime(c, t, y%10 == 0)
						}
					}
					c.Cover("years")
				}})
			}
			us = append(us, core.Unit{Name: "zero-and-zones", Cost: 1, Run: func(c *core.Ctx) {
				// the same instants held in locations east and west of UTC (the instant, not the wall clock, is carried)
				for _, base := range []time.Time{time.Date(1, 1, 1, 0, 30, 0, 0, time.UTC), time.Date(9999, 12, 31, 23, 30, 0, 0, time.UTC), time.Date(9999, 12, 31, 10, 0, 0, 1000000, time.UTC),
					time.Unix(0, 0).UTC(), time.Date(2038, 1, 19, 3, 14, 7, 0, time.UTC), time.Date(1969, 12, 31, 23, 59, 59, 999000000, time.UTC)} {
					for off := -12 * 3600; off <= 14*3600; off += 1800 {
						checkTime(c, base.In(time.FixedZone("Z", off)), off%7200 == 0)
					}
				}
				checkTime(c, time.Time{}.In(time.FixedZone("E", 3600)), true)
				checkTime(c, time.Time{}, true)
				checkTime(c, time.Date(2020, 1, 2, 3, 4, 5, 678000000, time.FixedZone("X", -7*3600)), true)
				checkTime(c, time.Date(1950, 1, 2, 3, 4, 5, 0, time.FixedZone("Y", 5*3600+1800)), true)
				c.Cover("zero")
			}})
			if tier == "thorough" {
				us = append(us, core.Unit{Name: "minutes-around-epoch", Cost: 20, Run: func(c *core.Ctx) {
					for m := -1440 * 2; m <= 1440*2; m++ {
						checkTime(c, time.Unix(int64(m)*60, 0).UTC(), false)
					}
				}})
				for _, s := range []int64{1 << 31, -(1 << 31)} {
					s := s
					us = append(us, core.Unit{Name: fmt.Sprintf("seconds-around-%d", s), Cost: 20, Run: func(c *core.Ctx) {
						for d := int64(-3600); d <= 3600; d++ {
							checkTime(c, time.Unix(s+d, 0).UTC(), false)
						}
					}})
				}
			}
			us = append(us, largeUnit(tier, "time.Time", "Boundary"))
			return us
		},
		RequireCover: func(string) []string {
			return []string{"years", "zero", "window-0", "window-1", "window-5", "window-8"}
		},
	})
}
