package props

import (
	"fmt"
	"reflect"
	"runtime"
	"sort"
	"strings"
	"time"

	hessian "github.com/vogo/gohessian"

	"verif/harness/core"
	"verif/harness/explore"
	"verif/harness/guard"
	rh "verif/harness/refhessian"
	"verif/harness/zoo"
)

// ---- corpus of valid messages ------------------------------------------------

type corpusMsg struct {
	name string
	b    []byte
}

var c14Corpus []corpusMsg
var c14Known map[string]reflect.Type // knows every class / list type named in the corpus

func buildCorpus() {
	if c14Corpus != nil {
		return
	}
	c14Known = map[string]reflect.Type{}
	add := func(n string, b []byte) {
		if len(b) > 0 && len(b) <= 160 {
			c14Corpus = append(c14Corpus, corpusMsg{n, b})
		}
	}
	for i := range zoo.Types {
		t := &zoo.Types[i]
		g := zoo.NewGen(zoo.Fixed{})
		v := g.Make(t.Type)
		tm, nm, p := Maps(v)
		if p != "" {
			continue
		}
		for k, x := range tm {
			c14Known[k] = x
		}
		if enc := Encode(v, nm); enc.OK() {
			add("lib:"+t.Name, enc.Bytes)
		}
		// reference renderings using the productions the library's encoder never emits
		for _, picks := range []map[string]int{
			{"list-form": 2}, {"list-form": 1, "type-backref": 1}, {"hoist-classdef": 1, "object-form": 1}, {"str-split": 1, "str-final": 2, "int-form": 1, "long-form": 1, "double-form": 1, "date-form": 1},
		} {
			var out []byte
			if p := core.Catch(func() {
				e := rh.NewEncoder(fixedPick{picks})
				e.Top(zoo.NewDenoter(nm).Denote(v))
				out = e.Out
			}); p == "" {
				add(fmt.Sprintf("ref:%s:%v", t.Name, picks), out)
			}
		}
	}
	// two frames on one stream: an object whose unknown field holds an instance of a class missing from the
	// type map (it is skipped but keeps its reference ordinal), then a frame that refers to that ordinal
	{
		inner := &rh.Class{Name: "Inner", Fields: []string{"a", "zzExtra", "s"}}
		unk := &rh.Class{Name: "com.example.NotInTheTypeMap", Fields: []string{"q"}}
		obj := &rh.Value{K: rh.Object, Class: inner, Elems: []*rh.Value{rh.IntV(5), {K: rh.Object, Class: unk, Elems: []*rh.Value{rh.IntV(1)}}, rh.StringV("x")}}
		frame1 := rh.Encode(obj)
		add("stream: skipped instance then a reference to it", append(append([]byte{}, frame1...), 0x51, 0x91))
		add("stream: skipped instance then a reference to the outer object", append(append([]byte{}, frame1...), 0x51, 0x90))
		add("stream: object, then the same class again by index", append(append([]byte{}, frame1...), 0x60, 0x92, 'N', 0x01, 'y'))
	}
	// a graph with references and a map with a reference
	n := &zoo.Node{V: 1}
	n.Next = &zoo.Node{V: 2, Next: n}
	tm, nm, _ := Maps(n)
	for k, x := range tm {
		c14Known[k] = x
	}
	if enc := Encode(n, nm); enc.OK() {
		add("lib:cycle", enc.Bytes)
	}
	// dedupe
	seen := map[string]bool{}
	var l []corpusMsg
	for _, m := range c14Corpus {
		if !seen[string(m.b)] {
			seen[string(m.b)] = true
			l = append(l, m)
		}
	}
	sort.Slice(l, func(i, j int) bool { return l[i].name < l[j].name })
	c14Corpus = l
}

// hostile type map: names bound to types of the wrong kind
func hostileMap() map[string]reflect.Type {
	buildCorpus()
	h := map[string]reflect.Type{}
	wrong := []reflect.Type{reflect.TypeOf(int32(0)), reflect.TypeOf(""), reflect.TypeOf(map[string]int32{}), reflect.TypeOf([]string{}), reflect.TypeOf(zoo.Inner{}), reflect.TypeOf(&zoo.Inner{}), reflect.TypeOf([]byte{})}
	var keys []string
	for k := range c14Known {
		keys = append(keys, k)
	}
	sort.Strings(keys)
	for i, k := range keys {
		t := c14Known[k]
		w := wrong[i%len(wrong)]
		if w.Kind() == t.Kind() {
			w = wrong[(i+1)%len(wrong)]
		}
		h[k] = w
	}
	return h
}

var c14Configs = []string{"empty-typemap", "known-typemap", "hostile-typemap"}

func c14TypeMap(cfg int) map[string]reflect.Type {
	buildCorpus()
	switch cfg {
	case 1:
		return copyTypeMap(c14Known)
	case 2:
		return hostileMap()
	}
	return map[string]reflect.Type{}
}

// ---- running one hostile input ---------------------------------------------------

var c14Entries = []string{"Decoder.ReadFrom+ReadObject*", "Serializer.ReadFrom+Read*", "ToObject", "Decoder.Decode", "Serializer.ToObject"}

// panicSite reduces a panic message to its site class.
func panicSite(p string) string {
	p = msgStrict(p)
	for _, cut := range []string{"value of type", "on zero Value", "with length", "with capacity", "out of range"} {
		if i := strings.Index(p, cut); i > 0 {
			p = p[:i+len(cut)]
		}
	}
	return p
}

type hostileResult struct {
	outcome string // "value", "error", or violation kind
}

// runHostile feeds b (through rd for the reader entry points) and classifies the behaviour.
// budgetMul scales the allocation allowance check (0 = no allocation check).
// extraAllow widens the allocation allowance for families where the decoded value is legitimately larger than
// linear in the input (n fields each receiving their own converted copy of one k-element list: n*k elements).
var extraAllow uint64

func runHostile(c *core.Ctx, entry int, b []byte, rd *guard.Reader, tm map[string]reflect.Type, desc, shape string, allocCheck bool) string {
	var ms0, ms1 runtime.MemStats
	if allocCheck {
		runtime.ReadMemStats(&ms0)
	}
	var pmsg string
	runaway := false
	func() {
		defer func() {
			if x := recover(); x != nil {
				if _, ok := x.(guard.Runaway); ok {
					runaway = true
					return
				}
				pmsg = fmt.Sprint(x)
				if pmsg == "" {
					pmsg = "panic"
				}
			}
		}()
		switch entry {
		case 0:
			d := hessian.NewDecoder(nil, tm)
			_, err := d.ReadFrom(rd)
			for i := 0; err == nil && rd.Pos < len(rd.Data) && i < 64; i++ {
				_, err = d.ReadObject()
			}
		case 1:
			s := hessian.NewSerializer(tm, nil)
			_, err := s.ReadFrom(rd)
			for i := 0; err == nil && rd.Pos < len(rd.Data) && i < 64; i++ {
				_, err = s.Read()
			}
		case 2:
			hessian.ToObject(b, tm)
		case 3:
			hessian.NewDecoder(nil, tm).Decode(b)
		case 4:
			hessian.NewSerializer(tm, nil).ToObject(b)
		}
	}()
	report := func(kind, msg string) string {
		c.Report(&core.Violation{Stage: "decode", Kind: kind, Shape: shape, Message: msg, Case: desc})
		return kind
	}
	if rd != nil && rd.Tripped {
		runaway = true
	}
	switch {
	case runaway:
		return report("runaway", "reader step budget exceeded: the decoder keeps reading at end of input or loops")
	case pmsg != "":
		return report("panic", panicSite(pmsg))
	}
	if allocCheck {
		runtime.ReadMemStats(&ms1)
		grow := ms1.TotalAlloc - ms0.TotalAlloc
		if allow := uint64(8<<20+1024*len(b)) + extraAllow; grow > allow {
			return report("allocation", fmt.Sprintf("allocated more than 8 MiB + 1 KiB per input byte for an input of class %s", sizeClass(len(b))))
		}
	}
	return "returned"
}

func sizeClass(n int) string {
	switch {
	case n < 64:
		return "<64 bytes"
	case n < 4096:
		return "<4 KiB"
	}
	return ">=4 KiB"
}

// tag-class alphabet: one or two representatives of every tag range the grammar distinguishes
var tagAlphabet = []byte{
	0x00, 0x01, 0x1f, 0x20, 0x21, 0x2f, 0x30, 0x33, 0x34, 0x38, 0x3c, 0x3f, 0x41, 'B', 'C', 'D', 'F', 'H', 'I', 0x4a, 0x4b, 'L', 'M', 'N', 'O',
	0x51, 'R', 'S', 'T', 0x55, 'V', 0x57, 0x58, 0x59, 'Z', 0x5b, 0x5d, 0x5f, 0x60, 0x61, 0x62, 0x6f, 0x70, 0x71, 0x77, 0x78, 0x79, 0x7f, 0x80, 0x90, 0x91, 0xbf, 0xc8, 0xd4, 0xe0, 0xf8, 0xff, 0x45,
}

func lazyExplore(c *core.Ctx, alphabet []byte, first byte, depth int, cfg int, entry int, label string) {
	tm := c14TypeMap(cfg)
	ex := &explore.Explorer{Bound: 0}
	ex.Case = func(ch *explore.Chooser) {
		rd := guard.NewReader([]byte{first})
		rd.Budget = 64 + 16*depth
		rd.Next = func() (byte, bool) {
			if len(rd.Data) >= depth {
				return 0, false
			}
			i := ch.All(len(alphabet)+1, "byte")
			if i == len(alphabet) {
				return 0, false
			}
			return alphabet[i], true
		}
		if !c.Begin() {
			return
		}
		// the description is only built when needed
		out := runHostileLazy(c, entry, rd, copyTypeMapIf(tm, cfg), label, cfg)
		c.Outcome(out)
	}
	ex.Visit = func(*explore.Chooser) bool { return !c.Expired() }
	ex.Run(nil)
	c.Res.States += ex.Stats.Executions
	c.Res.Transitions += ex.Stats.Transitions
	c.NontrivialN(ex.Stats.Executions)
}

func copyTypeMapIf(tm map[string]reflect.Type, cfg int) map[string]reflect.Type {
	// RegisterType is never called by the decode path, the map is only read: share it
	return tm
}

func runHostileLazy(c *core.Ctx, entry int, rd *guard.Reader, tm map[string]reflect.Type, label string, cfg int) string {
	var pmsg string
	runaway := false
	func() {
		defer func() {
			if x := recover(); x != nil {
				if _, ok := x.(guard.Runaway); ok {
					runaway = true
					return
				}
				pmsg = fmt.Sprint(x)
			}
		}()
		if entry == 0 {
			d := hessian.NewDecoder(nil, tm)
			_, err := d.ReadFrom(rd)
			for i := 0; err == nil && rd.Pos < len(rd.Data) && i < 8; i++ {
				_, err = d.ReadObject()
			}
		} else {
			s := hessian.NewSerializer(tm, nil)
			_, err := s.ReadFrom(rd)
			for i := 0; err == nil && rd.Pos < len(rd.Data) && i < 8; i++ {
				_, err = s.Read()
			}
		}
	}()
	if rd.Tripped {
		runaway = true
	}
	if !runaway && pmsg == "" {
		return "returned"
	}
	desc := fmt.Sprintf("bytes % x then end of input (%s, %s, %s)", rd.Data, label, c14Configs[cfg], c14Entries[entry])
	shape := label + " " + c14Configs[cfg]
	if runaway {
		c.Report(&core.Violation{Stage: "decode", Kind: "runaway", Shape: shape, Message: "reader step budget exceeded: the decoder keeps reading at end of input or loops", Case: desc})
		return "runaway"
	}
	c.Report(&core.Violation{Stage: "decode", Kind: "panic", Shape: shape, Message: panicSite(pmsg), Case: desc})
	return "panic"
}

// ---- declared-length amplification ---------------------------------------------------

func be32(v int32) []byte { return []byte{'I', byte(v >> 24), byte(v >> 16), byte(v >> 8), byte(v)} }

type ampCase struct {
	name string
	mk   func(n int32, payload int) []byte
}

func ampCases() []ampCase {
	str := func(s string) []byte { return append([]byte{byte(len(s))}, s...) }
	cat := func(parts ...[]byte) []byte {
		var b []byte
		for _, p := range parts {
			b = append(b, p...)
		}
		return b
	}
	elems := func(payload int) []byte {
		switch payload {
		case 1:
			return []byte{0x91}
		case 2:
			return []byte{0x91, 0x92, 0x93}
		case 3:
			// more elements present than any up-front allowance: growth must stay proportional to them
			b := make([]byte, 1100)
			for i := range b {
				b[i] = 0x91
			}
			return b
		}
		return nil
	}
	return []ampCase{
		{"untyped list x58 count", func(n int32, p int) []byte { return cat([]byte{0x58}, be32(n), elems(p)) }},
		{"typed list V count", func(n int32, p int) []byte { return cat([]byte{'V'}, str("[int"), be32(n), elems(p)) }},
		{"typed list V count (registered type)", func(n int32, p int) []byte { return cat([]byte{'V'}, str("[string"), be32(n), elems(p)) }},
		{"class definition field count", func(n int32, p int) []byte {
			b := cat([]byte{'C'}, str("Inner"), be32(n))
			if p >= 1 {
				b = cat(b, str("a"))
			}
			if p >= 2 {
				b = cat(b, str("s"), []byte{0x60, 0x91, 0x01, 'x'})
			}
			return b
		}},
		{"long-form class index", func(n int32, p int) []byte {
			return cat([]byte{'C'}, str("Inner"), []byte{0x92}, str("a"), str("s"), []byte{'O'}, be32(n), []byte{0x91, 0x01, 'x'})
		}},
		{"type back-reference", func(n int32, p int) []byte { return cat([]byte{0x72}, be32(n), elems(2)) }},
		{"type back-reference in map", func(n int32, p int) []byte { return cat([]byte{'M'}, be32(n), []byte{0x91, 0x92, 'Z'}) }},
		{"reference ordinal", func(n int32, p int) []byte { return cat([]byte{0x79, 0x51}, be32(n)) }},
		{"reference ordinal in field", func(n int32, p int) []byte {
			return cat([]byte{'C'}, str("Node"), []byte{0x92}, str("v"), str("next"), []byte{0x60, 0x91, 0x51}, be32(n))
		}},
		{"string chunk S length", func(n int32, p int) []byte { return cat([]byte{'S', byte(n >> 8), byte(n)}, []byte("abc")[:p%3+1]) }},
		{"string chunk R length", func(n int32, p int) []byte { return cat([]byte{'R', byte(n >> 8), byte(n)}, []byte("abc")[:p%3+1]) }},
		{"binary chunk B length", func(n int32, p int) []byte { return cat([]byte{'B', byte(n >> 8), byte(n)}, []byte{1, 2, 3}[:p%3+1]) }},
		{"binary chunk 0x41 length", func(n int32, p int) []byte { return cat([]byte{0x41, byte(n >> 8), byte(n)}, []byte{1, 2, 3}[:p%3+1]) }},
		{"nested untyped lists with counts", func(n int32, p int) []byte {
			return cat([]byte{0x58}, be32(n), []byte{0x58}, be32(n), []byte{0x58}, be32(n), elems(p))
		}},
	}
}

// ---- self-containing values ------------------------------------------------------------

// cyclicInputs are small well-formed messages in which a list or map contains itself (as element, key
// or value), placed where the decoder must convert or reject them; anything that formats such a value
// (an error message with %v) recurses for ever.
func cyclicInputs() []corpusMsg {
	str := func(s string) []byte { return append([]byte{byte(len(s))}, s...) }
	cat := func(parts ...[]byte) []byte {
		var b []byte
		for _, p := range parts {
			b = append(b, p...)
		}
		return b
	}
	selfList := func(ord byte) [][]byte {
		return [][]byte{
			{0x79, 0x51, 0x90 + ord},                                                                 // [self]
			{0x7a, 0x91, 0x51, 0x90 + ord},                                                           // [1, self]
			{0x57, 0x51, 0x90 + ord, 'Z'},                                                            // variable list [self]
			cat([]byte{0x71}, str("[int"), []byte{0x51, 0x90 + ord}),                                 // typed list [self]
			cat([]byte{0x71}, str("[string"), []byte{0x51, 0x90 + ord}),                              // typed (registered) list [self]
			{'H', 0x51, 0x90 + ord, 0x91, 'Z'},                                                       // map {self: 1}
			{'H', 0x91, 0x51, 0x90 + ord, 'Z'},                                                       // map {1: self}
			{'H', 0x01, 'a', 0x51, 0x90 + ord, 'Z'},                                                  // map {"a": self}
			cat([]byte{'M'}, str("Inner"), []byte{'H', 0x01, 'a', 0x51, 0x91 + ord, 'Z', 0x91, 'Z'}), // typed map (struct type) whose key is a self-containing map
			cat([]byte{'M'}, str("NamedMap"), []byte{0x79, 0x51, 0x91 + ord, 0x91, 'Z'}),             // typed map whose key is a self-containing list
		}
	}
	var l []corpusMsg
	add := func(n string, b []byte) { l = append(l, corpusMsg{n, b}) }
	for i, b := range selfList(0) {
		add(fmt.Sprintf("top-level #%d", i), b)
	}
	// as the value of a struct field of slice / map / struct / scalar type (ordinal 0 is the object)
	fields := []struct{ cls, fld string }{{"SlI32", "l"}, {"SlStr", "l"}, {"MpStrI32", "m"}, {"Nested", "in"}, {"Inner", "a"}, {"SlAny", "l"}, {"SlF64", "l"}}
	for _, f := range fields {
		for i, b := range selfList(1) {
			add(fmt.Sprintf("field %s.%s #%d", f.cls, f.fld, i), cat([]byte{'C'}, str(f.cls), []byte{0x91}, str(f.fld), []byte{0x60}, b))
		}
	}
	// as the value of a field the Go type does not have (it is skipped - and possibly logged)
	for i, b := range selfList(1) {
		add(fmt.Sprintf("unknown field of Inner #%d", i), cat([]byte{'C'}, str("Inner"), []byte{0x92}, str("zzUnknown"), str("a"), []byte{0x60}, b, []byte{0x91}))
	}
	// as an element of a typed list of ints / strings
	for i, b := range selfList(1) {
		add(fmt.Sprintf("element of [int #%d", i), cat([]byte{0x71}, str("[int"), b))
		add(fmt.Sprintf("element of [string #%d", i), cat([]byte{0x71}, str("[string"), b))
	}
	return l
}

// ---- nesting ladders ------------------------------------------------------------------

func ladder(kind int, depth int) []byte {
	var b []byte
	switch kind {
	case 0: // x79: untyped list of one element
		for i := 0; i < depth; i++ {
			b = append(b, 0x79)
		}
		b = append(b, 0x90)
	case 1: // x57 variable untyped list
		for i := 0; i < depth; i++ {
			b = append(b, 0x57)
		}
		b = append(b, 0x90)
		for i := 0; i < depth; i++ {
			b = append(b, 'Z')
		}
	case 2: // H map: key int, value nested map
		for i := 0; i < depth; i++ {
			b = append(b, 'H', 0x91)
		}
		b = append(b, 0x90)
		for i := 0; i < depth; i++ {
			b = append(b, 'Z')
		}
	case 3: // typed list of one element, type by back-reference after the first
		b = append(b, 0x71, 0x05, '[', 'N', 'o', 'd', 'e')
		for i := 1; i < depth; i++ {
			b = append(b, 0x71, 0x90)
		}
		b = append(b, 'N')
	case 5, 6, 7: // x79 / x57 / H ladders that end in an error at the bottom (unknown tag)
		for i := 0; i < depth; i++ {
			switch kind {
			case 5:
				b = append(b, 0x79)
			case 6:
				b = append(b, 0x57)
			default:
				b = append(b, 'H', 0x91)
			}
		}
		b = append(b, 0x45)
	case 8: // untyped fixed-length lists, each declaring 2048 elements and holding the next as its first element
		for i := 0; i < depth; i++ {
			b = append(b, 0x58, 'I', 0x00, 0x00, 0x08, 0x00)
		}
		b = append(b, 0x90)
	case 9: // the same with typed lists (type literal first, back-reference afterwards)
		b = append(b, 'V', 0x05, '[', 'N', 'o', 'd', 'e', 'I', 0x00, 0x00, 0x08, 0x00)
		for i := 1; i < depth; i++ {
			b = append(b, 'V', 0x90, 'I', 0x00, 0x00, 0x08, 0x00)
		}
		b = append(b, 'N')
	case 4: // class definition + instance with a self-typed field
		b = append(b, 'C', 0x04, 'N', 'o', 'd', 'e', 0x92, 0x01, 'v', 0x04, 'n', 'e', 'x', 't')
		for i := 0; i < depth; i++ {
			b = append(b, 0x60, 0x91)
		}
		b = append(b, 'N')
	}
	return b
}

// DagHolder receives shared-container chains in fields of interface-typed container types.
type DagHolder struct {
	M  map[string]interface{}
	L  []interface{}
	MI map[interface{}]interface{}
}

// dag renders a chain of depth containers in which every level holds the next one twice: once inline and once
// by back-reference (a well-formed message of linear size that denotes 2^depth paths). ord is the ordinal
// of the first level.
func Dag(kind, depth, ord int) []byte { return dag(kind, depth, ord) }

func dag(kind, depth, ord int) []byte {
	var b []byte
	var closing [][]byte
	for i := 0; i < depth; i++ {
		last := i == depth-1
		if kind == 0 {
			b = append(b, 0x7a)
			if last {
				b = append(b, 0x90, 0x90)
			} else {
				closing = append(closing, append([]byte{0x51}, be32(int32(ord+i+1))...))
			}
		} else {
			b = append(b, 'H', 0x01, 'a')
			if last {
				b = append(b, 0x90, 'Z')
			} else {
				closing = append(closing, append(append([]byte{0x01, 'b', 0x51}, be32(int32(ord+i+1))...), 'Z'))
			}
		}
	}
	for i := len(closing) - 1; i >= 0; i-- {
		b = append(b, closing[i]...)
	}
	return b
}

// blockedFor runs fn on its own goroutine and reports whether it is still blocked in a synchronisation
// primitive (lock, channel) on several looks one second apart: nothing else in this worker can release it.
func blockedFor(fn func()) (blocked bool, state string) {
	done := make(chan struct{})
	go func() {
		defer close(done)
		c14probe(fn)
	}()
	strikes := 0
	for {
		select {
		case <-done:
			return false, ""
		case <-time.After(time.Second):
		}
		buf := make([]byte, 1<<20)
		buf = buf[:runtime.Stack(buf, true)]
		st := ""
		for _, g := range strings.Split(string(buf), "\n\n") {
			if strings.Contains(g, "c14probe") {
				if i := strings.Index(g, "["); i >= 0 {
					if j := strings.Index(g[i:], "]"); j > 0 {
						st = g[i+1 : i+j]
					}
				}
			}
		}
		if strings.HasPrefix(st, "sync.") || strings.HasPrefix(st, "semacquire") || strings.HasPrefix(st, "chan ") || strings.HasPrefix(st, "select") {
			strikes++
			if strikes >= 5 {
				return true, strings.SplitN(st, ",", 2)[0]
			}
		} else {
			strikes = 0
		}
	}
}

//go:noinline
func c14probe(fn func()) { fn() }

var ladderNames = []string{"x79 lists", "x57 lists", "H maps", "typed lists", "objects with a self-typed field", "x79 lists ending in an unknown tag", "x57 lists ending in an unknown tag", "H maps ending in an unknown tag", "x58 lists each declaring 2048 elements", "V typed lists each declaring 2048 elements"}

func init() {
	core.Register(&core.Prop{
		ID: "C14", Level: "model_checking", StallS: 90,
		Rule:        "Exhaustive enumeration of hostile inputs against the real decoder (three type-map configurations: empty, knowing every class/list type of the corpus, hostile = names bound to types of the wrong kind). (1) Lazy reader exploration: the environment chooses each byte only when the decoder asks for it (or end of input): the full 256-byte alphabet to depth 2 (quick) / 3 (thorough) and a 58-byte tag-class alphabet (representatives of every tag range the grammar distinguishes) to depth 3-4 (quick) / 5 (thorough), through the streaming entry points of Decoder and Serializer. (2) One edit of a valid message (corpus: one message per zoo shape as written by the library plus reference renderings with variable lists, type back-references, hoisted definitions, long-form instances, chunked strings): every prefix, every single-byte deletion, every position x 256 replacement bytes, every position x 256 inserted bytes, through all five entry points (quick: subset of entries/configs). (3) Declared-length amplification: 14 productions carrying a length, count or index x declared value in {-2^31,-1,0,1,65535,2^20,2^31-1} x payload present in {none, one element, three, 1100 elements}. (4) Nesting ladders of five openers at depths 1..60000. Oracle: the call returns (a call that has not returned after 90 s ends the worker and is attributed to the case in flight; a recovered panic is a violation labelled by its site; exceeding the reader step budget of 64+16 per input byte is a runaway; TotalAlloc growth above 8 MiB + 1 KiB per input byte is an allocation violation; a killed worker is attributed to the case in flight). Distinct by construction (distinct byte strings as read).",
		Assumptions: []string{"resource bounds are deterministic proxies: reader-call budget and allocation allowance", "uniformly random 64 KiB strings of the property text are replaced by the enumerated families"},
		Units: func(tier string) []core.Unit {
			buildCorpus()
			var us []core.Unit
			// (1) lazy exploration
			fullDepth := tierPick(tier, 2, 3)
			for hi := 0; hi < 16; hi++ {
				hi := hi
				us = append(us, core.Unit{Name: fmt.Sprintf("lazy-full:%x0-%xf", hi, hi), Cost: 40, Run: func(c *core.Ctx) {
					full := make([]byte, 256)
					for i := range full {
						full[i] = byte(i)
					}
					for lo := 0; lo < 16; lo++ {
						for cfg := 0; cfg < 3; cfg++ {
							for entry := 0; entry < 2; entry++ {
								if tier != "thorough" && entry == 1 && cfg != 1 {
									continue
								}
								lazyExplore(c, full, byte(hi<<4|lo), fullDepth, cfg, entry, "lazy-full")
							}
						}
					}
					c.Cover("lazy-full")
					c.Sample(fmt.Sprintf("every byte string of length <= %d starting with 0x%x?, bytes chosen when read", fullDepth, hi))
				}})
			}
			tagDepth := tierPick(tier, 4, 5)
			for ti, tb := range tagAlphabet {
				ti, tb := ti, tb
				us = append(us, core.Unit{Name: fmt.Sprintf("lazy-tags:%02x", tb), Cost: 60, Run: func(c *core.Ctx) {
					for cfg := 0; cfg < 3; cfg++ {
						d := tagDepth
						if cfg != 1 && tier != "thorough" {
							d = tagDepth - 1
						}
						lazyExplore(c, tagAlphabet, tb, d, cfg, 0, "lazy-tags")
					}
					_ = ti
					c.Cover("lazy-tags")
				}})
			}
			// (2) single edits of corpus messages
			for mi := range c14Corpus {
				m := c14Corpus[mi]
				us = append(us, core.Unit{Name: "edit:" + m.name, Cost: len(m.b), Run: func(c *core.Ctx) {
					tms := []map[string]reflect.Type{c14TypeMap(0), c14TypeMap(1), c14TypeMap(2)}
					run := func(b []byte, what string) {
						for cfg := 0; cfg < 3; cfg++ {
							for entry := range c14Entries {
								if tier != "thorough" && entry >= 2 && !(entry == 2 && cfg == 1) {
									continue
								}
								if !c.Begin() {
									continue
								}
								desc := fmt.Sprintf("%s of %s: % x (%s, %s)", what, m.name, b, c14Configs[cfg], c14Entries[entry])
								// the byte-slice entry points only see inputs that returned under the budgeted reader
								rd := guard.NewReader(b)
								out := runHostile(c, entry, b, rd, tms[cfg], desc, "edit "+c14Configs[cfg], false)
								if entry == 0 && out != "returned" {
									break
								}
								c.Outcome(out)
							}
						}
					}
					for i := 0; i < len(m.b); i++ {
						run(m.b[:i], fmt.Sprintf("prefix of length %d", i))
						run(append(append([]byte{}, m.b[:i]...), m.b[i+1:]...), fmt.Sprintf("deletion of byte %d", i))
					}
					for i := 0; i <= len(m.b); i++ {
						for v := 0; v < 256; v++ {
							if i < len(m.b) && byte(v) != m.b[i] {
								r := append([]byte{}, m.b...)
								r[i] = byte(v)
								run(r, fmt.Sprintf("byte %d replaced by %02x", i, v))
							}
							ins := append(append(append([]byte{}, m.b[:i]...), byte(v)), m.b[i:]...)
							run(ins, fmt.Sprintf("byte %02x inserted at %d", v, i))
						}
					}
					c.NontrivialN(c.Res.Evaluations)
					c.Res.States += c.Res.Evaluations
					c.Cover("edit")
					if c.WantSample() {
						c.Sample(fmt.Sprintf("every prefix, deletion, replacement and insertion of % x (%s)", m.b, m.name))
					}
				}})
			}
			// (3) amplification
			us = append(us, core.Unit{Name: "amplification", Cost: 500, Run: func(c *core.Ctx) {
				for _, ac := range ampCases() {
					for _, n := range []int32{-1 << 31, -1, 0, 1, 65535, 1 << 20, 1<<31 - 1} {
						for payload := 0; payload < 4; payload++ {
							b := ac.mk(n, payload)
							for cfg := 0; cfg < 3; cfg++ {
								for entry := 0; entry < 3; entry++ {
									if !c.Begin() {
										continue
									}
									c.NontrivialN(1)
									c.Res.States++
									desc := fmt.Sprintf("%s declared %d, payload variant %d: % x (%s, %s)", ac.name, n, payload, b, c14Configs[cfg], c14Entries[entry])
									out := runHostile(c, entry, b, guard.NewReader(b), c14TypeMap(cfg), desc, "amplification: "+ac.name, true)
									c.Outcome(out)
									if entry == 0 && out != "returned" {
										break
									}
								}
							}
						}
					}
				}
				c.Cover("amplification")
				c.Sample("x58 I 7fffffff 91 : untyped list declaring 2^31-1 elements followed by one")
			}})
			// self-containing values
			us = append(us, core.Unit{Name: "cycles", Cost: 300, Run: func(c *core.Ctx) {
				for _, m := range cyclicInputs() {
					for cfg := 0; cfg < 3; cfg++ {
						for entry := 0; entry < 3; entry++ {
							if !c.Begin() {
								continue
							}
							c.NontrivialN(1)
							c.Res.States++
							desc := fmt.Sprintf("self-containing value, %s: % x (%s, %s)", m.name, m.b, c14Configs[cfg], c14Entries[entry])
							out := runHostile(c, entry, m.b, guard.NewReader(m.b), c14TypeMap(cfg), desc, "cycles", true)
							c.Outcome(out)
							if entry == 0 && out != "returned" {
								break
							}
						}
					}
				}
				c.Cover("cycles")
				c.Sample("C x05 SlI32 x91 x01 l x60 x79 Q x91 : a []int32 field fed a list that contains itself")
			}})
			// shared-container chains: linear-size messages that denote exponentially many paths
			us = append(us, core.Unit{Name: "dags", Cost: 100, Run: func(c *core.Ctx) {
				str := func(s string) []byte { return append([]byte{byte(len(s))}, s...) }
				tm := map[string]reflect.Type{"DagHolder": reflect.TypeOf(DagHolder{})}
				for kind, kn := range []string{"lists", "maps"} {
					for _, place := range []string{"top level", "field m inline", "field l inline", "field mi inline", "field m by reference", "field l by reference", "field mi by reference"} {
						for depth := 1; depth <= 64; depth++ {
							if !c.Begin() {
								continue
							}
							c.NontrivialN(1)
							c.Res.States++
							var b []byte
							f := strings.Fields(place)
							switch {
							case place == "top level":
								b = dag(kind, depth, 0)
							case f[2] == "inline":
								b = append(append(append([]byte{'C'}, str("DagHolder")...), 0x91), str(f[1])...)
								b = append(append(b, 0x60), dag(kind, depth, 1)...)
							default:
								b = append(append(append([]byte{'C'}, str("DagHolder")...), 0x91), str(f[1])...)
								b = append(append(b, 0x7a), dag(kind, depth, 1)...)
								b = append(b, 0x60, 0x51, 0x91)
							}
							if _, err := rh.ParseOne(b); err != nil {
								c.Report(&core.Violation{Stage: "selfcheck", Kind: "harness", Shape: "R1", Message: err.Error(), Case: place})
								break
							}
							desc := fmt.Sprintf("%s: %d %s each holding the next one inline and by back-reference (%d bytes)", place, depth, kn, len(b))
							out := runHostile(c, 0, b, guard.NewReader(b), tm, desc, "dags", true)
							c.Outcome(out)
							if out != "returned" {
								break // deeper chains would only take exponentially longer
							}
							if out = runHostile(c, 2, b, nil, tm, desc+" (ToObject)", "dags", true); out != "returned" {
								break
							}
						}
					}
				}
				c.Cover("dags")
			}})
			// process-wide accumulation: hundreds of thousands of distinct class, field and type names over many
			// frames and decoders; afterwards an ordinary message must still decode
			us = append(us, core.Unit{Name: "name-flood", Cost: 100, Run: func(c *core.Ctx) {
				frames := tierPick(tier, 200, 1200)
				str := func(s string) []byte { return append([]byte{byte(len(s))}, s...) }
				n := 0
				for f := 0; f < frames; f++ {
					if !c.Begin() {
						continue
					}
					c.NontrivialN(1)
					c.Res.States++
					var b []byte
					for len(b) < 64000 {
						n++
						switch f % 3 {
						case 0: // class definition with two fresh field names, then an instance
							b = append(append(append(b, 'C'), str(fmt.Sprintf("c.N%07d", n))...), 0x92)
							b = append(append(b, str(fmt.Sprintf("f%07da", n))...), str(fmt.Sprintf("f%07db", n))...)
						case 1: // typed list with a fresh type name
							b = append(append(append(b, 0x71), str(fmt.Sprintf("[t.N%07d", n))...), 0x90)
						default: // typed map with a fresh type name
							b = append(append(append(b, 'M'), str(fmt.Sprintf("m.N%07d", n))...), 'Z')
						}
					}
					desc := fmt.Sprintf("frame %d of %d: 64 KB of values with fresh class / field / type names (%d names so far)", f+1, frames, n)
					var out string
					blocked, st := blockedFor(func() {
						out = runHostile(c, 0, b, guard.NewReader(b), map[string]reflect.Type{}, desc, "name-flood", true)
					})
					if !blocked {
						// an ordinary message on a fresh decoder
						var v interface{}
						var err error
						msg := []byte{'C', 0x05, 'I', 'n', 'n', 'e', 'r', 0x92, 0x01, 'a', 0x01, 's', 0x60, 0x95, 0x02, 'o', 'k'}
						blocked, st = blockedFor(func() { v, err = hessian.ToObject(msg, map[string]reflect.Type{"Inner": reflect.TypeOf(zoo.Inner{})}) })
						if in, ok := v.(*zoo.Inner); !blocked && (err != nil || !ok || in.A != 5 || in.S != "ok") {
							c.Report(&core.Violation{Stage: "decode", Kind: "mismatch", Shape: "name-flood", Message: "an ordinary message no longer decodes after many distinct names were seen", Case: desc, Detail: fmt.Sprint(v, err)})
							break
						}
					}
					if blocked {
						c.Report(&core.Violation{Stage: "decode", Kind: "blocked", Shape: "name-flood", Message: "a decode call never returns: blocked in " + st, Case: desc})
						c.Stop("a decode call blocked; its goroutine cannot be reclaimed")
						break
					}
					c.Outcome(out)
				}
				c.Res.Extra["distinct_names_fed"] = int64(n)
				c.Cover("name-flood")
			}})
			// type names made of brackets: a list type name is data, however long
			us = append(us, core.Unit{Name: "bracket-names", Cost: 100, Run: func(c *core.Ctx) {
				for _, elem := range []string{"int", "long", "string", "double", "boolean", "object", "Inner", "com.example.X", ""} {
					for _, form := range []string{"x71 typed list of one", "x55 variable typed list", "V typed list with count", "M typed map"} {
						for _, n := range []int{1, 2, 8, 100, 1000, 4000, 12000, 30000, 60000} {
							if !c.Begin() {
								continue
							}
							c.NontrivialN(1)
							c.Res.States++
							name := strings.Repeat("[", n) + elem
							var b []byte
							switch form {
							case "x71 typed list of one":
								b = append(b, 0x71)
							case "x55 variable typed list":
								b = append(b, 0x55)
							case "V typed list with count":
								b = append(b, 'V')
							default:
								b = append(b, 'M')
							}
							if len(name) < 32 {
								b = append(append(b, byte(len(name))), name...)
							} else {
								b = append(append(b, 'S', byte(len(name)>>8), byte(len(name))), name...)
							}
							switch form {
							case "x71 typed list of one":
								b = append(b, 0x91)
							case "x55 variable typed list":
								b = append(b, 0x91, 'Z')
							case "V typed list with count":
								b = append(b, 0x91, 0x91)
							default:
								b = append(b, 0x91, 0x92, 'Z')
							}
							desc := fmt.Sprintf("%s whose type name is %d x '[' + %q (%d bytes)", form, n, elem, len(b))
							out := "returned"
							for cfg := 0; cfg < 2 && out == "returned"; cfg++ {
								out = runHostile(c, 0, b, guard.NewReader(b), c14TypeMap(cfg), desc+" ("+c14Configs[cfg]+")", "bracket-names", true)
							}
							c.Outcome(out)
							if out != "returned" {
								break // longer names would only cost more
							}
						}
					}
				}
				c.Cover("bracket-names")
			}})
			// long lists with one element of a foreign kind, into numeric and string slices (any per-size code path
			// of the conversion has to fail the same way a short list does)
			us = append(us, core.Unit{Name: "long-lists-foreign-element", Cost: 100, Run: func(c *core.Ctx) {
				str := func(s string) []byte { return append([]byte{byte(len(s))}, s...) }
				tm := map[string]reflect.Type{"SlI64": reflect.TypeOf(zoo.SlI64{}), "SlI32": reflect.TypeOf(zoo.SlI32{}), "SlF64": reflect.TypeOf(zoo.SlF64{}), "SlStr": reflect.TypeOf(zoo.SlStr{}),
					"[long": reflect.TypeOf([]int64{}), "[int": reflect.TypeOf([]int32{}), "[double": reflect.TypeOf([]float64{}), "[string": reflect.TypeOf([]string{})}
				foreign := map[string][]byte{"a string": {0x01, 'x'}, "a double": {0x5d, 0x07}, "a map": {'H', 'Z'}, "a list": {0x78}, "true": {'T'}, "an int": {0x95}}
				for _, dest := range []string{"SlI64", "SlI32", "SlF64", "SlStr"} {
					for _, typed := range []string{"", "[long", "[int", "[double", "[string"} {
						for _, n := range []int{100, 1025, 4095, 4096, 4097, 8200, 70000} {
							for fk, fb := range foreign {
								for _, at := range []int{0, n / 2, n - 1} {
									if !c.Begin() {
										continue
									}
									c.NontrivialN(1)
									c.Res.States++
									b := append(append(append([]byte{'C'}, str(dest)...), 0x91), str("l")...)
									b = append(b, 0x60)
									if typed == "" {
										b = append(b, 0x58)
									} else {
										b = append(append(b, 'V'), str(typed)...)
									}
									b = append(b, be32(int32(n))...)
									for i := 0; i < n; i++ {
										if i == at {
											b = append(b, fb...)
										} else if dest == "SlStr" {
											b = append(b, 0x01, 'e')
										} else {
											b = append(b, 0x90+byte(i%40))
										}
									}
									desc := fmt.Sprintf("%s.l fed a list (type %q) of %d elements with %s at index %d (%d bytes)", dest, typed, n, fk, at, len(b))
									c.Outcome(runHostile(c, 0, b, guard.NewReader(b), tm, desc, "long-lists-foreign-element", true))
								}
							}
						}
					}
				}
				c.Cover("long-lists-foreign-element")
			}})
			// a class with very many fields, instantiated many times in a row or nested (cost per instance must not
			// be the declared field count when the input ends right after the instance tag)
			us = append(us, core.Unit{Name: "wide-class-deep", Cost: 100, Run: func(c *core.Ctx) {
				str := func(s string) []byte { return append([]byte{byte(len(s))}, s...) }
				tm := map[string]reflect.Type{"Node": reflect.TypeOf(zoo.Node{})}
				for _, shape := range []string{"nested through the first field", "nested through the last field", "list of instances"} {
					for _, fields := range []int{1, 10, 100, 1000, 4000, 12000} {
						for _, depth := range []int{1, 10, 100, 1000, 4000, 12000, 30000} {
							if fields*3+depth > 66000 {
								continue
							}
							if !c.Begin() {
								continue
							}
							c.NontrivialN(1)
							c.Res.States++
							b := append(append([]byte{'C'}, str("Node")...), be32(int32(fields+1))...)
							if shape != "nested through the last field" {
								b = append(b, str("next")...)
							}
							for i := 0; i < fields; i++ {
								b = append(b, 0x02, 'a'+byte(i%26), 'a'+byte(i/26%26))
							}
							if shape == "nested through the last field" {
								b = append(b, str("next")...)
							}
							if shape == "list of instances" {
								b = append(b, 0x57)
							}
							for i := 0; i < depth; i++ {
								b = append(b, 0x60)
							}
							desc := fmt.Sprintf("class with %d fields, %d instance tags %s, input ends there (%d bytes)", fields+1, depth, shape, len(b))
							out := runHostile(c, 0, b, guard.NewReader(b), tm, desc, "wide-class-deep", true)
							c.Outcome(out)
							if out == "returned" {
								out = runHostile(c, 2, b, nil, tm, desc+" (ToObject)", "wide-class-deep", true)
							}
							if out != "returned" {
								break
							}
						}
					}
				}
				c.Cover("wide-class-deep")
			}})
			// fan-in: many fields / elements refer to one earlier container
			us = append(us, core.Unit{Name: "fan-in", Cost: 100, Run: func(c *core.Ctx) {
				str := func(s string) []byte { return append([]byte{byte(len(s))}, s...) }
				tm := map[string]reflect.Type{"SlI32": reflect.TypeOf(zoo.SlI32{}), "SlAny": reflect.TypeOf(zoo.SlAny{}), "MpStrI32": reflect.TypeOf(zoo.MpStrI32{}), "[int": reflect.TypeOf([]int32{})}
				for _, target := range []string{"untyped list of 1000 ints", "typed list of 1000 ints", "map of 300 entries"} {
					for _, holder := range []string{"SlI32.l", "SlAny.l", "MpStrI32.m", "bare references"} {
						for _, n := range []int{1, 2, 10, 50, 100, 200, 400, 800, 1600, 5000, 20000} {
							if !c.Begin() {
								continue
							}
							c.NontrivialN(1)
							c.Res.States++
							// outer list (ordinal 0): the target (ordinal 1), then n holders each referring to it
							var b []byte
							b = append(b, 0x57)
							switch target {
							case "untyped list of 1000 ints":
								b = append(b, 0x58, 0xcb, 0xe8)
								for i := 0; i < 1000; i++ {
									b = append(b, 0x90+byte(i%40))
								}
							case "typed list of 1000 ints":
								b = append(append(append(b, 'V'), str("[int")...), 0xcb, 0xe8)
								for i := 0; i < 1000; i++ {
									b = append(b, 0x90+byte(i%40))
								}
							default:
								b = append(b, 'H')
								for i := 0; i < 300; i++ {
									b = append(append(b, str(fmt.Sprintf("k%03d", i))...), 0x90+byte(i%40))
								}
								b = append(b, 'Z')
							}
							if holder != "bare references" {
								f := strings.Split(holder, ".")
								b = append(append(append(append(b, 'C'), str(f[0])...), 0x91), str(f[1])...)
							}
							for i := 0; i < n; i++ {
								if holder != "bare references" {
									b = append(b, 0x60)
								}
								b = append(b, 0x51, 0x91)
							}
							b = append(b, 'Z')
							desc := fmt.Sprintf("%s, then %d x %s referring to it (%d bytes)", target, n, holder, len(b))
							if _, err := rh.ParseOne(b); err != nil {
								c.Report(&core.Violation{Stage: "selfcheck", Kind: "harness", Shape: "R1", Message: err.Error(), Case: desc})
								break
							}
							k := 1000
							if target == "map of 300 entries" {
								k = 300
							}
							// every holder may get its own converted copy, no more: a []int32 / []interface{} copy costs up to
							// ~24 bytes per element, a Go map copy a few hundred bytes per entry (buckets, boxed keys)
							per := 96
							if k == 300 {
								per = 768
							}
							extraAllow = uint64(per * n * k)
							out := runHostile(c, 0, b, guard.NewReader(b), tm, desc, "fan-in", true)
							extraAllow = 0
							c.Outcome(out)
							if out != "returned" {
								break
							}
						}
					}
				}
				c.Cover("fan-in")
			}})
			// (4) ladders
			for k := range ladderNames {
				k := k
				us = append(us, core.Unit{Name: "ladder:" + ladderNames[k], Cost: 400, Run: func(c *core.Ctx) {
					for _, depth := range []int{1, 10, 100, 1000, 10000, 60000} {
						b := ladder(k, depth)
						for cfg := 0; cfg < 3; cfg++ {
							for entry := 0; entry < 3; entry++ {
								if !c.Begin() {
									continue
								}
								c.NontrivialN(1)
								c.Res.States++
								desc := fmt.Sprintf("%s nested %d deep (%d bytes) (%s, %s)", ladderNames[k], depth, len(b), c14Configs[cfg], c14Entries[entry])
								out := runHostile(c, entry, b, guard.NewReader(b), c14TypeMap(cfg), desc, "ladder: "+ladderNames[k], true)
								c.Outcome(out)
								if entry == 0 && out != "returned" {
									break
								}
							}
						}
					}
					c.Cover("ladder")
					c.Sample(fmt.Sprintf("%s nested 1, 10, 100, 1000, 10000, 60000 deep", ladderNames[k]))
				}})
			}
			return us
		},
		RequireCover: func(string) []string {
			return []string{"lazy-full", "lazy-tags", "edit", "amplification", "ladder", "cycles", "dags", "name-flood", "bracket-names", "fan-in", "long-lists-foreign-element", "wide-class-deep"}
		},
	})
}
