package props

import (
	"encoding/json"
	"fmt"
	"os"
	"os/exec"
	"strings"
	"sync"

	hessian "github.com/vogo/gohessian"

	"verif/harness/core"
	"verif/harness/explore"
	rh "verif/harness/refhessian"
	"verif/harness/sched"
	"verif/harness/zoo"
)

// Cold scenarios: every execution runs in a fresh process, so that the first use of any lazily
// built package-level state (a cache, a pooled scratch buffer, a once-initialised table) happens
// inside the scheduled execution, under every explored interleaving - in-process exploration always
// finds such state already warm.

type ColdA struct {
	Id   int32
	Name string
	Tags []string
	Next *ColdA
}

type ColdB struct {
	X int64
	A ColdA
}

func coldValueA() *ColdA {
	return &ColdA{Id: 7, Name: "cold", Tags: []string{"t1", "t2"}, Next: &ColdA{Id: 8}}
}
func coldValueB() *ColdB { return &ColdB{X: 1 << 40, A: ColdA{Id: 9, Name: "b"}} }

func coldMaps() (map[string]string, map[string]interface{}) {
	// built by hand: extraction would run library code before the scenario starts
	nm := map[string]string{"ColdA": "ColdA", "ColdB": "ColdB", "[]string": "[string", "[string": "[string"}
	return nm, nil
}

func coldBytes(v interface{}) []byte {
	nm, _ := coldMaps()
	e := rh.NewEncoder(nil)
	e.Top(zoo.NewDenoter(nm).Denote(v))
	return e.Out
}

type coldBody struct {
	name string
	run  func() string
}

func coldBodies() []coldBody {
	nm, _ := coldMaps()
	tm := map[string]interface{}{}
	_ = tm
	typeMap := func() map[string]reflectType {
		return map[string]reflectType{"ColdA": rtype(ColdA{}), "ColdB": rtype(ColdB{}), "[string": rtype([]string{})}
	}
	return []coldBody{
		{"first encode of ColdA", func() string {
			b, err := hessian.NewEncoder(nil, copyNameMap(nm)).Encode(coldValueA())
			return encRes(b, err, "")
		}},
		{"first encode of ColdB", func() string {
			b, err := hessian.NewEncoder(nil, copyNameMap(nm)).Encode(coldValueB())
			return encRes(b, err, "")
		}},
		{"first decode of ColdA", func() string {
			v, err := hessian.NewDecoder(nil, typeMap()).Decode(coldBytes(coldValueA()))
			return decRes(v, err, "")
		}},
		{"first decode of ColdB", func() string {
			v, err := hessian.NewDecoder(nil, typeMap()).Decode(coldBytes(coldValueB()))
			return decRes(v, err, "")
		}},
		{"first pooled serializer round trip", func() string {
			p := hessian.NewSerializerPool(1, typeMap(), copyNameMap(nm))
			z := p.Get().(hessian.Serializer)
			b, err := z.ToBytes(coldValueA())
			if err != nil {
				return "ERR " + err.Error()
			}
			v, err := z.ToObject(b)
			p.Return(z)
			return decRes(v, err, "")
		}},
		{"first chunked string and binary encode", func() string {
			b, err := hessian.ToBytes(strings.Repeat("y", 2050), nil)
			r := encRes(b[:min(6, len(b))], err, "")
			b, err = hessian.ToBytes(make([]byte, 4100), nil)
			return r + encRes(b[:min(6, len(b))], err, "")
		}},
	}
}

var coldScenarios = [][]int{{0, 0}, {0, 1}, {2, 2}, {2, 3}, {0, 2}, {4, 4}, {5, 5}, {1, 3}}

// ColdExec is the child side: run one execution of a cold scenario with the given choices and print a JSON report.
func ColdExec(args []string) int {
	if len(args) < 2 {
		return 2
	}
	var scenario int
	fmt.Sscan(args[0], &scenario)
	var choices []int
	json.Unmarshal([]byte(args[1]), &choices)
	bodies := coldBodies()
	type report struct {
		Trace   []explore.Point `json:"trace"`
		Results []string        `json:"results"`
		Panics  []string        `json:"panics"`
		Dead    bool            `json:"deadlock"`
		Blocks  []string        `json:"blocks"`
		Points  int             `json:"points"`
		Sw      []sched.Event   `json:"switches"`
	}
	var rep report
	if scenario < 0 { // solo run of body -scenario-1
		b := bodies[-scenario-1]
		rep.Results = []string{b.run()}
	} else {
		idx := coldScenarios[scenario]
		rep.Results = make([]string, len(idx))
		var fns []func()
		for k, bi := range idx {
			k, bi := k, bi
			fns = append(fns, func() { rep.Results[k] = bodies[bi].run() })
		}
		ch := explore.ReplayOne(choices, func(*explore.Chooser) {})
		r := sched.New(ch, fns...)
		r.KeepTrace = true
		r.Execute(&hessian.VerifPointHook)
		rep.Trace = ch.Trace
		rep.Dead = r.Deadlock
		rep.Blocks = r.NativeBlocks
		rep.Points = r.TotalPoints
		rep.Sw = r.Trace
		for _, t := range r.Threads {
			rep.Panics = append(rep.Panics, t.Panic)
		}
	}
	out, _ := json.Marshal(rep)
	fmt.Println(string(out))
	return 0
}

func coldChild(scenario int, choices []int) (map[string]interface{}, []explore.Point, error) {
	exe, _ := os.Executable()
	cj, _ := json.Marshal(choices)
	cmd := exec.Command(exe, "--cold", fmt.Sprint(scenario), string(cj))
	cmd.Env = append(os.Environ(), "GOMAXPROCS=2")
	out, err := cmd.Output()
	if err != nil {
		return nil, nil, fmt.Errorf("cold child failed: %v", err)
	}
	var raw struct {
		Trace   []explore.Point `json:"trace"`
		Results []string        `json:"results"`
		Panics  []string        `json:"panics"`
		Dead    bool            `json:"deadlock"`
		Blocks  []string        `json:"blocks"`
		Points  int             `json:"points"`
		Sw      []sched.Event   `json:"switches"`
	}
	line := out
	if i := strings.LastIndex(strings.TrimSpace(string(out)), "\n"); i >= 0 {
		line = []byte(strings.TrimSpace(string(out))[i+1:])
	}
	if err := json.Unmarshal(line, &raw); err != nil {
		return nil, nil, fmt.Errorf("cold child output: %v", err)
	}
	m := map[string]interface{}{"results": raw.Results, "panics": raw.Panics, "deadlock": raw.Dead, "blocks": raw.Blocks, "points": raw.Points, "switches": raw.Sw}
	return m, raw.Trace, nil
}

func coldUnits(tier string) []core.Unit {
	var us []core.Unit
	// companion: the same first uses, free-running under the race detector, one fresh process per unit
	for k := 0; k < tierPick(tier, 4, 12); k++ {
		k := k
		us = append(us, core.Unit{Name: fmt.Sprintf("race:cold:%d", k), Cost: 150, Binary: "race", Run: func(c *core.Ctx) {
			if !c.Begin() {
				return
			}
			c.NontrivialN(1)
			bodies := coldBodies()
			n := []int{2, 8, 64, 16}[k%4]
			results := make([][]string, n)
			var wg sync.WaitGroup
			start := make(chan struct{})
			for g := 0; g < n; g++ {
				g := g
				results[g] = make([]string, len(bodies))
				wg.Add(1)
				go func() {
					defer wg.Done()
					<-start
					for j := range bodies {
						bi := (g + j + k) % len(bodies)
						if p := core.Catch(func() { results[g][bi] = bodies[bi].run() }); p != "" {
							results[g][bi] = "PANIC " + p
						}
					}
				}()
			}
			close(start)
			wg.Wait()
			for bi, b := range bodies {
				want := b.run()
				for g := 0; g < n; g++ {
					if results[g][bi] != want {
						c.Report(&core.Violation{Stage: "race-pass", Kind: "differs-from-solo", Shape: "free-running cold", Message: msgStrict(fmt.Sprintf("%q, first used concurrently in a fresh process, returned something else than when run alone", b.name)),
							Case: fmt.Sprintf("%d goroutines released together in a fresh process", n), Detail: trunc200(results[g][bi]) + " vs " + trunc200(want)})
						return
					}
				}
			}
			c.Res.States++
			c.Outcome("race-cold-ok")
			c.Cover("race:cold")
		}})
	}
	for si := range coldScenarios {
		si := si
		us = append(us, core.Unit{Name: fmt.Sprintf("cold:%v", coldScenarios[si]), Cost: 120, Run: func(c *core.Ctx) {
			bodies := coldBodies()
			idx := coldScenarios[si]
			// solo results, each from its own fresh process
			solo := make([]string, len(idx))
			for k, bi := range idx {
				m, _, err := coldChild(-bi-1, nil)
				if err != nil {
					c.Res.Notes = append(c.Res.Notes, err.Error())
					c.Res.Exhaustive = false
					return
				}
				solo[k] = m["results"].([]string)[0]
			}
			var names []string
			for _, bi := range idx {
				names = append(names, bodies[bi].name)
			}
			desc := fmt.Sprintf("fresh process, threads %q", names)
			ok := true
			ex := &explore.Explorer{Bound: 1}
			ex.External = func(prefix []int) []explore.Point {
				if !c.Begin() {
					ok = false
					return nil
				}
				m, trace, err := coldChild(si, prefix)
				if err != nil {
					c.Report(&core.Violation{Stage: "cold", Kind: "crash", Shape: "cold", Message: msgStrict(err.Error()), Case: fmt.Sprintf("%s, choices %v", desc, prefix)})
					ok = false
					return nil
				}
				if m["points"].(int) > 0 {
					c.Cover("instrumented")
				}
				c.Res.Extra["points_executed"] += int64(m["points"].(int))
				kind, msg := "", ""
				res := m["results"].([]string)
				switch {
				case m["deadlock"].(bool):
					kind, msg = "deadlock", "no enabled thread while some thread is unfinished"
				default:
					for k, p := range m["panics"].([]string) {
						if p != "" {
							kind, msg = "panic", fmt.Sprintf("thread running %q panicked: %s", names[k], p)
						}
					}
					if msg == "" {
						for k := range idx {
							if res[k] != solo[k] {
								kind, msg = "differs-from-solo", fmt.Sprintf("%q, as the first use in a fresh process, returned something else than when run alone", names[k])
								desc2 := fmt.Sprintf("\n got  %s\n solo %s", trunc200(res[k]), trunc200(solo[k]))
								_ = desc2
								break
							}
						}
					}
				}
				if msg != "" {
					c.Report(&core.Violation{Stage: "cold-schedule", Kind: kind, Shape: "2 threads cold", Message: msgStrict(msg), Case: fmt.Sprintf("%s; switches (thread@point) %v", desc, m["switches"])})
					ok = false
				} else {
					c.Outcome("as-solo")
				}
				if len(prefix) > 0 {
					c.NontrivialN(1)
					if c.WantSample() {
						c.Sample(fmt.Sprintf("%s; switches %v", desc, m["switches"]))
					}
				}
				return trace
			}
			ex.Visit = func(*explore.Chooser) bool { return ok && !c.Expired() }
			runTolerant(c, ex, desc)
			c.Res.States += ex.Stats.Executions
			c.Res.Transitions += ex.Stats.Transitions
			c.Cover("cold")
		}})
	}
	return us
}
