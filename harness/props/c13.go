package props

import (
	"fmt"
	hessian "github.com/vogo/gohessian"
	"reflect"
	"strings"
	"time"
	"unsafe"
	"verif/harness/guard"

	"verif/harness/core"
	"verif/harness/explore"
	rh "verif/harness/refhessian"
)

// BadHolder has an interface-typed slot at every kind of position.
type BadHolder struct {
	A   int32
	X   interface{}
	L   []interface{}
	M   map[string]interface{}
	MK  map[interface{}]string
	MI  map[int32]interface{}
	MA  map[interface{}]interface{}
	In  *BadHolder
	S   string
	End int32
}

type BadUintptrField struct {
	A   int32
	U   uintptr
	End int32
}
type BadUintptrSlice struct {
	A   int32
	L   []uintptr
	End int32
}
type BadChanField struct {
	A   int32
	C   chan int
	End int32
}
type BadFuncField struct {
	A   int32
	F   func()
	End int32
}
type BadComplexField struct {
	A   int32
	Z   complex128
	End int32
}
type BadChanSlice struct {
	A   int32
	L   []chan int
	End int32
}
type BadFuncMap struct {
	A   int32
	M   map[string]func()
	End int32
}
type BadNestedStruct struct {
	A   int32
	In  BadComplexField
	P   *BadChanField
	End int32
}

// BadTimeEmbedded embeds time.Time as its first field (its method set is that of a time) and also holds a channel.
type BadTimeEmbedded struct {
	time.Time
	C   chan int
	End int32
}

var (
	theChan = make(chan int, 1)
	theFunc = func() {}
	theInt  = 5
)

var badKinds = []struct {
	name string
	mk   func() interface{}
	// hashable: may be used as a map key
	hashable bool
}{
	{"chan int", func() interface{} { return theChan }, true},
	{"func()", func() interface{} { return theFunc }, false},
	{"complex64", func() interface{} { return complex64(1 + 2i) }, true},
	{"complex128", func() interface{} { return complex128(3 + 4i) }, true},
	{"unsafe.Pointer", func() interface{} { return unsafe.Pointer(&theInt) }, true},
	{"[]chan int", func() interface{} { return []chan int{theChan} }, false},
	{"map[string]func()", func() interface{} { return map[string]func(){"f": theFunc} }, false},
	{"struct with chan field", func() interface{} { return BadChanField{A: 1, C: theChan, End: 2} }, false},
	{"*struct with func field", func() interface{} { return &BadFuncField{A: 1, F: theFunc, End: 2} }, true},
	{"struct with complex field", func() interface{} { return BadComplexField{A: 1, Z: 1i, End: 2} }, true},
	{"struct with []chan field", func() interface{} { return BadChanSlice{A: 1, L: []chan int{theChan}, End: 2} }, false},
	{"struct with map[string]func()", func() interface{} { return BadFuncMap{A: 1, M: map[string]func(){"f": theFunc}, End: 2} }, false},
	{"nested struct with complex field", func() interface{} { return &BadNestedStruct{A: 1, P: &BadChanField{C: theChan}, End: 2} }, true},
	{"struct embedding time.Time first, with a chan field", func() interface{} {
		return BadTimeEmbedded{Time: time.Unix(1500000000, 0), C: theChan, End: 2}
	}, false},
	{"*struct embedding time.Time first, with a chan field", func() interface{} {
		return &BadTimeEmbedded{Time: time.Unix(1500000000, 0), C: theChan, End: 2}
	}, true},
	{"uintptr", func() interface{} { return uintptr(7) }, true},
	{"[]uintptr", func() interface{} { return []uintptr{1, 2} }, false},
	{"struct with a uintptr field", func() interface{} { return BadUintptrField{A: 1, U: 9, End: 2} }, true},
	{"struct with a []uintptr field", func() interface{} { return &BadUintptrSlice{A: 1, L: []uintptr{3}, End: 2} }, true},
	{"struct with a nil chan field", func() interface{} { return &BadChanField{A: 1, End: 2} }, true},
	{"struct with a nil func field", func() interface{} { return BadFuncField{A: 1, End: 2} }, false},
}

// secondOf returns another hashable value of the same kind as bad.
func secondOf(bad interface{}) interface{} {
	switch x := bad.(type) {
	case chan int:
		return make(chan int)
	case complex64:
		return x + 1
	case complex128:
		return x + 1
	case unsafe.Pointer:
		return unsafe.Pointer(&theChan)
	case *BadFuncField:
		return &BadFuncField{A: 2, F: theFunc}
	case BadComplexField:
		return BadComplexField{A: 9, Z: 2i}
	case *BadNestedStruct:
		return &BadNestedStruct{A: 9, P: &BadChanField{C: theChan}}
	case *BadChanField:
		return &BadChanField{A: 9}
	case *BadTimeEmbedded:
		return &BadTimeEmbedded{C: theChan, End: 9}
	}
	return bad
}

var badPositions = []string{"two map keys of the same bad kind", "value of a map entry with an int key", "value of a map[interface{}]interface{} entry with a non-string key", "element 4095 of 5000", "element 4096 of 5000", "element 8191 of 9000", "element 1023 of 1100", "element 65535 of 70000", "element 65536 of 70000", "last element of 70000", "in a self-containing list inside a list", "in a self-containing map inside a list", "top", "field", "list[first]", "list[middle]", "list[last]", "map value", "map key", "nested.field", "nested.nested.field",
	"list in list", "map in list", "list in map", "top-level list element", "top-level map value", "nested.list[last]"}

// place builds a value with bad at the given position; ctxChoices fill the surroundings.
func placeBad(pos string, bad interface{}, ch *explore.Chooser) interface{} {
	fillA := []int32{1, 0, -300000}[ch.Dev(3, "A")]
	sVal := []string{"s", ""}[ch.Dev(2, "S")]
	extraL := ch.Dev(3, "extraL") // other list elements around
	extraM := ch.Dev(2, "extraM")
	h := &BadHolder{A: fillA, S: sVal, End: 9}
	mkList := func(where string) []interface{} {
		var l []interface{}
		pre := []interface{}{int32(1), "two", 3.5}
		switch where {
		case "first":
			l = append(l, bad)
			l = append(l, pre[:1+extraL]...)
		case "middle":
			l = append(l, pre[:1+extraL]...)
			l = append(l, bad)
			l = append(l, int32(3))
		default:
			l = append(l, pre[:1+extraL]...)
			l = append(l, bad)
		}
		return l
	}
	mkMap := func() map[string]interface{} {
		m := map[string]interface{}{"bad": bad}
		if extraM == 1 {
			m["ok"] = int32(1)
		}
		return m
	}
	var idx, total int
	if n, _ := fmt.Sscanf(pos, "element %d of %d", &idx, &total); n == 2 || pos == "last element of 70000" {
		if n != 2 {
			idx, total = 69999, 70000
		}
		l := make([]interface{}, total)
		for i := range l {
			l[i] = int32(i)
		}
		l[idx] = bad
		h.L = l
		return h
	}
	switch pos {
	case "in a self-containing list inside a list":
		// cyc contains itself and the bad value; formatting it (an error message with %v) never ends
		cyc := make([]interface{}, 2)
		cyc[0] = bad
		cyc[1] = cyc
		h.L = []interface{}{int32(1), cyc}
		return h
	case "in a self-containing map inside a list":
		cyc := map[string]interface{}{"bad": bad}
		cyc["self"] = cyc
		h.L = []interface{}{cyc, int32(2)}
		return h
	case "top":
		return bad
	case "field":
		h.X = bad
	case "list[first]":
		h.L = mkList("first")
	case "list[middle]":
		h.L = mkList("middle")
	case "list[last]":
		h.L = mkList("last")
	case "map value":
		h.M = mkMap()
	case "value of a map entry with an int key":
		h.MI = map[int32]interface{}{7: bad}
		if extraM == 1 {
			h.MI[8] = "ok"
		}
	case "value of a map[interface{}]interface{} entry with a non-string key":
		h.MA = map[interface{}]interface{}{int64(7): bad}
		if extraM == 1 {
			h.MA[true] = "ok"
		}
	case "map key":
		h.MK = map[interface{}]string{bad: "v"}
	case "two map keys of the same bad kind":
		h.MK = map[interface{}]string{bad: "v", secondOf(bad): "w"}
	case "nested.field":
		h.In = &BadHolder{A: 2, X: bad, End: 8}
	case "nested.nested.field":
		h.In = &BadHolder{A: 2, In: &BadHolder{A: 3, X: bad}, End: 8}
	case "list in list":
		h.L = []interface{}{int32(1), mkList("last"), int32(2)}
	case "map in list":
		h.L = []interface{}{int32(1), mkMap()}
	case "list in map":
		h.M = map[string]interface{}{"l": mkList("middle")}
	case "top-level list element":
		return mkList("middle")
	case "top-level map value":
		return mkMap()
	case "nested.list[last]":
		h.In = &BadHolder{A: 2, L: mkList("last")}
	}
	return h
}

func pickBytes(first bool, a, b []byte) []byte {
	if first {
		return a
	}
	return b
}

// acceptable: kinds that are refused today but that an encoder could legitimately support. A nil chan / func in a
// typed field may be written if the bytes decode back; a uintptr may be written if the value comes back as
// itself ("never succeeds with bytes that decode to something else").
func acceptable(kind string, val interface{}, b []byte) bool {
	switch {
	case strings.Contains(kind, " nil "):
		return decodesBack(val, b)
	case strings.Contains(kind, "uintptr"):
		tm, _, p := Maps(val)
		if p != "" {
			return false
		}
		d := Decode(b, tm)
		if !d.OK() {
			return false
		}
		a, g := reflect.ValueOf(val), reflect.ValueOf(d.Val)
		for a.Kind() == reflect.Ptr && !a.IsNil() {
			a = a.Elem()
		}
		for g.IsValid() && g.Kind() == reflect.Ptr && !g.IsNil() {
			g = g.Elem()
		}
		return g.IsValid() && a.Type() == g.Type() && reflect.DeepEqual(a.Interface(), g.Interface())
	}
	return false
}

// decodesBack reports whether the library's own decoder accepts the bytes (with maps extracted from the value).
func decodesBack(val interface{}, b []byte) bool {
	tm, _, p := Maps(val)
	if p != "" {
		return false
	}
	return Decode(b, tm).OK()
}

func init() {
	core.Register(&core.Prop{
		ID: "C13", Level: "model_checking",
		Rule:        "Exhaustive enumeration (choice explorer) of bad kind (13: channel, function, complex64/128, unsafe.Pointer, slices/maps/structs containing them, directly and nested) x position (15: top level, struct field, first/middle/last list element, map value, map key, one and two nesting levels, containers in containers, top-level containers) x surroundings (other field values, sibling elements and entries, <=k deviations), plus typed struct fields of the bad kinds. Each case is one real ToBytes call. Oracle: it returns, does not panic, and returns a non-nil error; if it returns nil the bytes are parsed by R1 and the discrepancy is recorded. Non-trivial: all cases (each contains an unrepresentable value); distinct by (kind, position, surroundings).",
		Assumptions: []string{"nil channels/functions in interface slots are left out (writing null for them is arguably right); uintptr is refused today, and an encoder that accepts it must produce bytes that decode to the same value; a nil chan / func in a TYPED struct field is refused today, and if an encoder accepts it the bytes must decode back with the library's own decoder", "unhashable bad values are not used as map keys"},
		Units: func(tier string) []core.Unit {
			bound := tierPick(tier, 2, 4)
			var us []core.Unit
			for pi := range badPositions {
				pos := badPositions[pi]
				us = append(us, core.Unit{Name: "pos:" + pos, Cost: 5, Run: func(c *core.Ctx) {
					for ki := range badKinds {
						bk := badKinds[ki]
						if (pos == "map key" || pos == "two map keys of the same bad kind") && !bk.hashable {
							continue
						}
						ex := &explore.Explorer{Bound: bound}
						ex.Case = func(ch *explore.Chooser) {
							val := placeBad(pos, bk.mk(), ch)
							if !c.Begin() {
								return
							}
							desc := fmt.Sprintf("%s at %s, surroundings %v", bk.name, pos, ch.Choices())
							c.Nontrivial(desc)
							for _, withMaps := range []bool{false, true} {
								var nm map[string]string
								if withMaps {
									var p string
									_, nm, p = Maps(val)
									if p != "" {
										c.Outcome("maps-panic (C16)")
										continue
									}
								}
								enc := Encode(val, nm)
								shape := bk.name + " @ " + pos
								switch {
								case enc.Panic != "":
									c.Report(&core.Violation{Stage: "encode", Kind: "panic", Shape: shape, Message: msgClass(enc.Panic), Case: desc, Choices: ch.Choices()})
								case enc.Err == nil && acceptable(bk.name, val, enc.Bytes):
									c.Outcome("accepted-and-decodes-back")
								case enc.Err == nil:
									det := ""
									if pv, err := rh.ParseOne(enc.Bytes); err != nil {
										det = "bytes are not even well-formed: " + err.Error()
									} else {
										det = "bytes denote " + pv.String()
									}
									c.Report(&core.Violation{Stage: "encode", Kind: "success-reported", Shape: shape, Message: "encode succeeded for a value containing an unrepresentable part", Case: desc, Detail: det + " | " + hexs(enc.Bytes), Choices: ch.Choices()})
								default:
									c.Outcome("error")
								}
								// the streaming entry points into a plain io.Writer (no bytes.Buffer, no io.ByteWriter)
								for ei, ename := range []string{"Encoder.WriteTo", "Encoder.WriteObject", "Serializer.WriteTo"} {
									var werr error
									gw := guard.NewWriter()
									p := core.Catch(func() {
										switch ei {
										case 0:
											werr = hessian.NewEncoder(nil, copyNameMap(nm)).WriteTo(gw, val)
										case 1:
											werr = hessian.NewEncoder(gw, copyNameMap(nm)).WriteObject(val)
										default:
											werr = hessian.NewSerializer(nil, copyNameMap(nm)).WriteTo(gw, val)
										}
									})
									switch {
									case p != "":
										c.Report(&core.Violation{Stage: "encode", Kind: "panic", Shape: shape + " " + ename, Message: msgClass(p), Case: desc + " (" + ename + " into a plain io.Writer)", Choices: ch.Choices()})
									case werr == nil && !acceptable(bk.name, val, gw.Buf):
										c.Report(&core.Violation{Stage: "encode", Kind: "success-reported", Shape: shape + " " + ename, Message: ename + " into a plain io.Writer succeeded for a value containing an unrepresentable part", Case: desc, Detail: hexs(gw.Buf), Choices: ch.Choices()})
									default:
										c.Outcome("error-streaming")
									}
								}
								// the same value three times through one Encoder and one Serializer: every call has to fail
								// (whatever an earlier refused call left behind)
								var e2, e3 error
								var b2, b3 []byte
								if p := core.Catch(func() {
									e := hessian.NewEncoder(nil, copyNameMap(nm))
									z := hessian.NewSerializer(nil, copyNameMap(nm))
									for k := 0; k < 3; k++ {
										b2, e2 = e.Encode(val)
										b3, e3 = z.ToBytes(val)
										if e2 == nil || e3 == nil {
											break
										}
									}
								}); p != "" {
									c.Report(&core.Violation{Stage: "encode", Kind: "panic", Shape: shape + " reused", Message: msgClass(p), Case: desc + " (encoded repeatedly on one instance)", Choices: ch.Choices()})
								} else if (e2 == nil || e3 == nil) && !acceptable(bk.name, val, pickBytes(e2 == nil, b2, b3)) {
									c.Report(&core.Violation{Stage: "encode", Kind: "success-reported", Shape: shape + " reused", Message: "a repeated encode of the same unrepresentable value on one Encoder / Serializer succeeded", Case: desc + " (encoded repeatedly on one instance)", Choices: ch.Choices()})
								} else {
									c.Outcome("error-when-repeated")
								}
							}
							if c.WantSample() && ki == 3 {
								c.Sample(desc)
							}
						}
						ex.Visit = func(*explore.Chooser) bool { return !c.Expired() }
						ex.Run(nil)
						c.Res.States += ex.Stats.Executions
						c.Res.Transitions += ex.Stats.Transitions
					}
					c.Cover("pos:" + pos)
				}})
			}
			return us
		},
		RequireCover: func(string) []string {
			var l []string
			for _, p := range badPositions {
				l = append(l, "pos:"+p)
			}
			return l
		},
	})
}
