// Package props holds one file per property: the space, the oracle, the shape classifier.
package props

import (
	"bytes"
	"fmt"
	"io"
	"reflect"
	"regexp"
	"strings"

	hessian "github.com/vogo/gohessian"

	"verif/harness/core"
	"verif/harness/explore"
	"verif/harness/guard"
	rh "verif/harness/refhessian"
	"verif/harness/zoo"
)

type reflectType = reflect.Type

func rtype(v interface{}) reflect.Type { return reflect.TypeOf(v) }

type silent struct{}

// The library's default logger formats every line (and prints it to stdout). The harness keeps the
// formatting - a log line that formats a hostile value is part of the behaviour under test - and drops
// the output.
func (silent) Info(a ...interface{})             { fmt.Fprint(io.Discard, a...) }
func (silent) Warn(a ...interface{})             { fmt.Fprint(io.Discard, a...) }
func (silent) Error(a ...interface{})            { fmt.Fprint(io.Discard, a...) }
func (silent) Debug(a ...interface{})            { fmt.Fprint(io.Discard, a...) }
func (silent) Infof(f string, a ...interface{})  { fmt.Fprintf(io.Discard, f, a...) }
func (silent) Warnf(f string, a ...interface{})  { fmt.Fprintf(io.Discard, f, a...) }
func (silent) Errorf(f string, a ...interface{}) { fmt.Fprintf(io.Discard, f, a...) }
func (silent) Debugf(f string, a ...interface{}) { fmt.Fprintf(io.Discard, f, a...) }
func (silent) Printf(f string, a ...interface{}) { fmt.Fprintf(io.Discard, f, a...) }
func (silent) Println(a ...interface{})          { fmt.Fprintln(io.Discard, a...) }

func init() { hessian.SetLogger(silent{}) }

// EncRes is the outcome of an encode call.
type EncRes struct {
	Bytes []byte
	Err   error
	Panic string
}

// OK reports success.
func (r EncRes) OK() bool { return r.Err == nil && r.Panic == "" }

// Encode runs the public one-shot encoder, recovering panics.
func Encode(v interface{}, nameMap map[string]string) (r EncRes) {
	r.Panic = core.Catch(func() { r.Bytes, r.Err = hessian.ToBytes(v, nameMap) })
	return
}

// DecRes is the outcome of a decode call.
type DecRes struct {
	Val      interface{}
	Err      error
	Panic    string
	Runaway  bool
	Consumed int
	Calls    int
}

// OK reports success.
func (r DecRes) OK() bool { return r.Err == nil && r.Panic == "" && !r.Runaway }

// Decode decodes through the budgeted no-read-ahead reader (same code path as ToObject below ReadFrom).
func Decode(b []byte, typeMap map[string]reflect.Type) (r DecRes) {
	rd := guard.NewReader(b)
	func() {
		defer func() {
			if x := recover(); x != nil {
				if _, ok := x.(guard.Runaway); ok {
					r.Runaway = true
					return
				}
				r.Panic = fmt.Sprint(x)
				if r.Panic == "" {
					r.Panic = "panic"
				}
			}
		}()
		d := hessian.NewDecoder(nil, typeMap)
		r.Val, r.Err = d.ReadFrom(rd)
	}()
	r.Consumed = rd.Pos
	r.Calls = rd.Calls
	if rd.Tripped {
		r.Runaway = true
	}
	return
}

// DecodeTrickle decodes through a reader whose Read returns at most one byte per call - legal for an
// io.Reader, and what a network connection may do at any offset. Code that uses Read where it needs
// ReadFull sees short reads everywhere instead of only at a buffer refill boundary.
func DecodeTrickle(b []byte, typeMap map[string]reflect.Type) (r DecRes) {
	rd := guard.NewReader(b)
	rd.MaxChunk = 1
	rd.Budget = 64 + 32*len(b)
	func() {
		defer func() {
			if x := recover(); x != nil {
				if _, ok := x.(guard.Runaway); ok {
					r.Runaway = true
					return
				}
				r.Panic = fmt.Sprint(x)
			}
		}()
		d := hessian.NewDecoder(nil, typeMap)
		r.Val, r.Err = d.ReadFrom(rd)
	}()
	r.Consumed = rd.Pos
	if rd.Tripped {
		r.Runaway = true
	}
	return
}

// DecodeEOFWithData decodes through a reader that returns io.EOF in the same Read call as the last bytes.
func DecodeEOFWithData(b []byte, typeMap map[string]reflect.Type) (r DecRes) {
	rd := guard.NewReader(b)
	rd.EOFWithData = true
	func() {
		defer func() {
			if x := recover(); x != nil {
				if _, ok := x.(guard.Runaway); ok {
					r.Runaway = true
					return
				}
				r.Panic = fmt.Sprint(x)
			}
		}()
		d := hessian.NewDecoder(nil, typeMap)
		r.Val, r.Err = d.ReadFrom(rd)
	}()
	r.Consumed = rd.Pos
	if rd.Tripped {
		r.Runaway = true
	}
	return
}

// DecodeFromBuffer decodes straight from a *bytes.Buffer (a reader with Len / Next / Bytes) and then
// overwrites the storage the bytes came from: the decoded value must not change (no aliasing of input).
func DecodeFromBuffer(b []byte, typeMap map[string]reflect.Type, render func(interface{}) string) (r DecRes, aliased bool) {
	src := append([]byte{}, b...)
	buf := bytes.NewBuffer(src)
	r.Panic = core.Catch(func() { r.Val, r.Err = hessian.NewDecoder(nil, typeMap).ReadFrom(buf) })
	if r.Panic != "" || r.Err != nil {
		return
	}
	before := render(r.Val)
	for i := range src {
		src[i] ^= 0x5a
	}
	buf.Reset()
	buf.Write(bytes.Repeat([]byte{0xa5}, len(src)))
	return r, render(r.Val) != before
}

// AgreeReaders decodes b through the other reader environments (one byte per Read, io.EOF together with
// the last bytes, a *bytes.Buffer whose storage is overwritten afterwards) and returns "" when each gives
// the value want renders to, else a description. render must not print addresses.
func AgreeReaders(b []byte, typeMap map[string]reflect.Type, want string, render func(interface{}) string) string {
	for _, alt := range []struct {
		name string
		res  DecRes
	}{{"a reader returning one byte per Read", DecodeTrickle(b, typeMap)}, {"a reader returning io.EOF together with the last bytes", DecodeEOFWithData(b, typeMap)}, {"ToObject (bufio over the byte slice)", DecodePublic(b, typeMap)}} {
		if !alt.res.OK() {
			return "decoding through " + alt.name + " fails: " + fmt.Sprint(alt.res.Err, alt.res.Panic)
		}
		if got := render(alt.res.Val); got != want {
			return "decoding through " + alt.name + " gives another value"
		}
	}
	fb, aliased := DecodeFromBuffer(b, typeMap, render)
	if !fb.OK() {
		return "decoding from a *bytes.Buffer fails: " + fmt.Sprint(fb.Err, fb.Panic)
	}
	if aliased {
		return "a value decoded from a *bytes.Buffer changes when the buffer's storage is overwritten afterwards"
	}
	return ""
}

// RenderPlain renders scalars and pointer-free holders (a pointer to a struct is rendered by its target).
func RenderPlain(v interface{}) string {
	rv := reflect.ValueOf(v)
	if rv.IsValid() && rv.Kind() == reflect.Ptr && !rv.IsNil() {
		return fmt.Sprintf("*%T %+v", v, rv.Elem().Interface())
	}
	return fmt.Sprintf("%T %+v", v, v)
}

// DecodePublic runs hessian.ToObject (only on inputs known to return under Decode).
func DecodePublic(b []byte, typeMap map[string]reflect.Type) (r DecRes) {
	r.Panic = core.Catch(func() { r.Val, r.Err = hessian.ToObject(b, typeMap) })
	return
}

// Maps extracts type and name map, recovering panics.
func Maps(v interface{}) (tm map[string]reflect.Type, nm map[string]string, pmsg string) {
	pmsg = core.Catch(func() { tm, nm = hessian.ExtractTypeNameMap(v) })
	return
}

func copyNameMap(m map[string]string) map[string]string {
	c := make(map[string]string, len(m))
	for k, v := range m {
		c[k] = v
	}
	return c
}

func copyTypeMap(m map[string]reflect.Type) map[string]reflect.Type {
	c := make(map[string]reflect.Type, len(m))
	for k, v := range m {
		c[k] = v
	}
	return c
}

// ZooCase is one generated value.
type ZooCase struct {
	Type    *zoo.T
	Val     interface{}
	Desc    string
	Choices []int
	Devs    int
}

type countPicker struct{ n int }

func (c *countPicker) All(int, string) int { return 0 }
func (c *countPicker) Dev(int, string) int { c.n++; return 0 }

// zooSlots is the number of deviation points of the default value of a zoo type.
func zooSlots(t *zoo.T) int {
	cp := &countPicker{}
	zoo.NewGen(cp).Make(t.Type)
	return cp.n
}

// ForEachZoo enumerates every value of a zoo type within a deviation bound, one case per value.
func ForEachZoo(c *core.Ctx, t *zoo.T, bound int, noAstral bool, fn func(zc *ZooCase)) {
	forEachZooRaw(c, t, bound, noAstral, func(zc *ZooCase) {
		if !c.Begin() {
			return
		}
		if zc.Devs > 0 {
			c.Nontrivial(zc.Desc)
		}
		fn(zc)
	})
}

func forEachZooRaw(c *core.Ctx, t *zoo.T, bound int, noAstral bool, fn func(zc *ZooCase)) {
	ex := &explore.Explorer{Bound: bound}
	ex.Case = func(ch *explore.Chooser) {
		g := zoo.NewGen(ch)
		g.NoAstral = noAstral
		v := g.Make(t.Type)
		fn(&ZooCase{Type: t, Val: v, Desc: t.Name + " " + g.Describe(), Choices: ch.Choices(), Devs: ch.Devs()})
	}
	ex.Visit = func(*explore.Chooser) bool { return !c.Expired() }
	ex.Run(nil)
	c.Res.States += ex.Stats.Executions
	c.Res.Transitions += ex.Stats.Transitions
}

func hexs(b []byte) string {
	if len(b) > 96 {
		return fmt.Sprintf("%x…(%d bytes)", b[:96], len(b))
	}
	return fmt.Sprintf("%x", b)
}

func tierPick(tier string, quick, thorough int) int {
	if tier == "thorough" {
		return thorough
	}
	return quick
}

var reStandaloneNum = regexp.MustCompile(`(^|[^\w.])-?\d+(\.\d+)?([eE][-+]?\d+)?\b`)

func msgClass(s string) string {
	s = core.Normalize(s)
	s = reStandaloneNum.ReplaceAllString(s, "${1}N")
	// drop value-specific fragments after well known prefixes
	if i := strings.Index(s, "objects:"); i > 0 {
		s = s[:i]
	}
	return s
}

var (
	reHex      = regexp.MustCompile(`0x[0-9a-fA-F]+`)
	reListType = regexp.MustCompile(`list type.*$`)
	reUndef    = regexp.MustCompile(`(undefined type|no type map for|can't find list type|read list type)[^(]*`)
	reConv     = regexp.MustCompile(`can't convert to (\w+): .*, type:`)
)

// msgStrict removes tag values, type names and payload fragments from a decoder message so that one
// root cause yields one signature.
func msgStrict(s string) string {
	s = msgClass(s)
	s = reHex.ReplaceAllString(s, "0xT")
	s = reUndef.ReplaceAllString(s, "$1 ")
	s = reConv.ReplaceAllString(s, "can't convert to $1: type:")
	// keep the innermost (last) cause and the outermost function
	parts := strings.Split(s, ":   ")
	if len(parts) > 2 {
		s = parts[0] + ": … " + parts[len(parts)-1]
	}
	return s
}

// topShape classifies the position of the first difference reported by Bisim.
func diffShape(d string) string {
	// path part before ':'
	i := strings.Index(d, ":")
	if i < 0 {
		return "?"
	}
	p := d[:i]
	var sb strings.Builder
	inIdx := false
	for _, r := range p {
		switch {
		case r == '[' || r == '{':
			inIdx = true
			sb.WriteRune(r)
		case r == ']' || r == '}':
			inIdx = false
			sb.WriteRune(r)
		case inIdx:
		default:
			sb.WriteRune(r)
		}
	}
	return sb.String()
}

var _ = rh.NullV
