package props

import (
	"bytes"
	"fmt"
	"strings"
	"unicode/utf8"

	"verif/harness/core"
	rh "verif/harness/refhessian"
)

// StrPos carries a string / byte slice at every non-top position.
type StrPos struct {
	S   string
	L   []string
	MK  map[string]int32
	MV  map[string]string
	B   []byte
	LB  [][]byte
	End int32
}

const strChunk = 2048
const binChunk = 4096

var strClasses = []struct {
	name string
	unit string
}{{"ascii", "a"}, {"2byte", "é"}, {"3byte", "中"}, {"4byte", "😀"}, {"U+FFFD", "\uFFFD"}, {"NUL", "\x00"}}

func mkString(unit string, n int) string { return strings.Repeat(unit, n) }

// checkString round-trips one top-level string and inspects the emitted chunks.
func checkString(c *core.Ctx, s string, desc, shape string) {
	report := func(stage, kind, msg, detail string) {
		c.Report(&core.Violation{Stage: stage, Kind: kind, Shape: shape, Message: msgClass(msg), Case: desc, Detail: detail})
	}
	enc := Encode(s, nil)
	if !enc.OK() {
		report("encode", "error", fmt.Sprint(enc.Err, enc.Panic), "")
		return
	}
	// R1: chunk prefixes count characters and no chunk ends inside a code point (else the parse fails)
	pv, err := rh.ParseOne(enc.Bytes)
	if err != nil {
		report("refparse", "malformed", "reference decoder rejects the encoded string: "+err.Error(), hexs(enc.Bytes))
		return
	}
	if !(pv.K == rh.String && pv.S == s) && !(pv.K == rh.Null && s == "") {
		report("refparse", "mismatch", "encoded string denotes different content", fmt.Sprintf("parsed %s", pv))
		return
	}
	if pv.K == rh.String {
		total := 0
		for i, n := range pv.Chunks {
			total += n
			if n > 65535 {
				report("refparse", "prefix", "chunk longer than 65535", "")
			}
			_ = i
		}
		if total != utf8.RuneCountInString(s) {
			report("refparse", "prefix", "length prefixes do not add up to the number of characters", fmt.Sprint(pv.Chunks))
			return
		}
	}
	dec := Decode(enc.Bytes, nil)
	if d := AgreeReaders(enc.Bytes, nil, RenderPlain(dec.Val), RenderPlain); d != "" && dec.OK() {
		report("decode", "other-reader", d, "")
		return
	}
	if !dec.OK() {
		report("decode", "error", fmt.Sprint(dec.Err, dec.Panic, dec.Runaway), hexs(enc.Bytes))
		return
	}
	got, ok := dec.Val.(string)
	if !ok && dec.Val == nil && s == "" {
		got, ok = "", true
	}
	if !ok || got != s {
		first := 0
		for first < len(got) && first < len(s) && got[first] == s[first] {
			first++
		}
		report("decode", "mismatch", "decoded string differs from the original", fmt.Sprintf("type %T, len %d vs %d, first difference at byte %d", dec.Val, len(got), len(s), first))
		return
	}
	if dec.Consumed != len(enc.Bytes) {
		report("decode", "framing", "decoder did not consume exactly the encoded bytes", fmt.Sprintf("%d of %d", dec.Consumed, len(enc.Bytes)))
	}
}

func checkBinary(c *core.Ctx, b []byte, desc, shape string) {
	report := func(stage, kind, msg, detail string) {
		c.Report(&core.Violation{Stage: stage, Kind: kind, Shape: shape, Message: msgClass(msg), Case: desc, Detail: detail})
	}
	enc := Encode(b, nil)
	if !enc.OK() {
		report("encode", "error", fmt.Sprint(enc.Err, enc.Panic), "")
		return
	}
	pv, err := rh.ParseOne(enc.Bytes)
	if err != nil {
		report("refparse", "malformed", "reference decoder rejects the encoded binary: "+err.Error(), hexs(enc.Bytes))
		return
	}
	if pv.K != rh.Binary || !bytes.Equal(pv.Bin, b) {
		report("refparse", "mismatch", "encoded binary denotes different content", fmt.Sprintf("parsed %s", pv))
		return
	}
	dec := Decode(enc.Bytes, nil)
	if d := AgreeReaders(enc.Bytes, nil, RenderPlain(dec.Val), RenderPlain); d != "" && dec.OK() {
		report("decode", "other-reader", d, "")
		return
	}
	if !dec.OK() {
		report("decode", "error", fmt.Sprint(dec.Err, dec.Panic, dec.Runaway), hexs(enc.Bytes))
		return
	}
	got, ok := dec.Val.([]byte)
	if dec.Val == nil && len(b) == 0 {
		ok = true
	}
	if !ok || !bytes.Equal(got, b) {
		report("decode", "mismatch", "decoded binary differs from the original", fmt.Sprintf("type %T len %d vs %d", dec.Val, len(got), len(b)))
		return
	}
	if dec.Consumed != len(enc.Bytes) {
		report("decode", "framing", "decoder did not consume exactly the encoded bytes", fmt.Sprintf("%d of %d", dec.Consumed, len(enc.Bytes)))
	}
}

func checkStrPositions(c *core.Ctx, s string, b []byte, desc string) {
	if !c.Begin() {
		return
	}
	c.NontrivialN(1)
	report := func(stage, kind, msg, detail string) {
		c.Report(&core.Violation{Stage: stage, Kind: kind, Shape: "positions", Message: msgClass(msg), Case: desc, Detail: detail})
	}
	// the last binary has the same length and other content: a decoder that hands out views of one scratch
	// buffer would make the earlier ones equal to it
	b2 := make([]byte, len(b))
	for i := range b {
		b2[i] = ^b[i]
	}
	h := &StrPos{S: s, L: []string{s, "m", s, "n", s}, MK: map[string]int32{s: 5}, MV: map[string]string{"k": s}, B: b, LB: [][]byte{b, {9}, b2}, End: 3}
	tm, nm, _ := Maps(h)
	enc := Encode(h, nm)
	if !enc.OK() {
		report("encode", "error", fmt.Sprint(enc.Err, enc.Panic), "")
		return
	}
	if _, err := rh.ParseOne(enc.Bytes); err != nil {
		report("refparse", "malformed", "reference decoder rejects the stream: "+err.Error(), "")
		return
	}
	dec := Decode(enc.Bytes, tm)
	if !dec.OK() {
		report("decode", "error", fmt.Sprint(dec.Err, dec.Panic, dec.Runaway), "")
		return
	}
	d, ok := dec.Val.(*StrPos)
	if !ok {
		report("decode", "type", fmt.Sprintf("%T", dec.Val), "")
		return
	}
	if dd := AgreeReaders(enc.Bytes, tm, RenderPlain(dec.Val), RenderPlain); dd != "" {
		report("decode", "other-reader", dd, "")
		return
	}
	bad := ""
	switch {
	case d.S != s:
		bad = "struct field string"
	case len(d.L) != 5 || d.L[0] != s || d.L[1] != "m" || d.L[2] != s || d.L[3] != "n" || d.L[4] != s:
		bad = fmt.Sprintf("[]string elements (len %d)", len(d.L))
	case len(d.MK) != 1:
		bad = fmt.Sprintf("map key: %d entries", len(d.MK))
	case d.MK[s] != 5:
		bad = "map key content"
	case len(d.MV) != 1 || d.MV["k"] != s:
		bad = "map value"
	case !bytes.Equal(d.B, b):
		bad = "struct field []byte"
	case len(d.LB) != 3 || !bytes.Equal(d.LB[0], b) || !bytes.Equal(d.LB[1], []byte{9}) || !bytes.Equal(d.LB[2], b2):
		bad = fmt.Sprintf("[][]byte elements (len %d)", len(d.LB))
	case d.End != 3:
		bad = "field after the containers"
	}
	if bad != "" {
		report("decode", "mismatch", "content differs at: "+bad, "")
		return
	}
	c.Outcome("positions-exact")
}

func init() {
	core.Register(&core.Prop{
		ID: "C09", Level: "model_checking",
		Rule:        "Exhaustive enumeration: every string length 0..3*2048+40 for each content class (ASCII, 2-, 3-, 4-byte code points; both tiers: all four), ASCII strings with one wide code point (2-,3-,4-byte) at every offset in [b-3,b+3] around every internal chunk boundary b; every binary length 0..3*4096+40 for four content patterns; and 18 boundary lengths at every position (struct field, first/middle/last list element, map key, map value, [][]byte element). Each case: real ToBytes, R1 parse (length prefixes count characters / octets, no chunk ends inside a code point), real ToObject, exact content equality. Distinct by construction.",
		Assumptions: []string{"contents are a handful of classes per length, not all contents"},
		Units: func(tier string) []core.Unit {
			var us []core.Unit
			maxS := 3*strChunk + 40
			if tier == "thorough" {
				maxS = 5*strChunk + 40
			}
			for ci, cl := range strClasses {
				_ = ci
				cl := cl
				for part := 0; part < 4; part++ {
					part := part
					us = append(us, core.Unit{Name: fmt.Sprintf("strlen:%s:%d", cl.name, part), Cost: 40, Run: func(c *core.Ctx) {
						for n := part; n <= maxS; n += 4 {
							if !c.Begin() {
								continue
							}
							c.NontrivialN(1)
							checkString(c, mkString(cl.unit, n), fmt.Sprintf("string of %d x %q", n, cl.unit), "strlen:"+cl.name)
						}
						c.Outcome("strlen:" + cl.name)
						c.Cover("strlen:" + cl.name)
						c.Sample(fmt.Sprintf("string of %d x %q (crosses the 2048-character chunk size)", 2049+part, cl.unit))
					}})
				}
			}
			us = append(us, core.Unit{Name: "str-boundary-mixed", Cost: 30, Run: func(c *core.Ctx) {
				wides := []string{"é", "中", "😀"}
				bounds := []int{strChunk, 2 * strChunk, 3 * strChunk}
				span := 3
				if tier == "thorough" {
					bounds = append(bounds, 4*strChunk, 5*strChunk)
					span = 16
				}
				for _, b := range bounds {
					for off := -span; off <= span; off++ {
						for _, w := range wides {
							pos := b + off
							for _, total := range []int{pos + 1, pos + 2, b + 10, 3*strChunk + 40} {
								if total <= pos {
									continue
								}
								if !c.Begin() {
									continue
								}
								c.NontrivialN(1)
								s := mkString("a", pos) + w + mkString("z", total-pos-1)
								checkString(c, s, fmt.Sprintf("%d chars ASCII with %q at character offset %d (chunk boundary %d%+d)", total, w, pos, b, off), "str-boundary")
							}
							// two wide characters straddling the boundary
							if c.Begin() {
								c.NontrivialN(1)
								s := mkString("a", pos-1) + w + w + mkString("z", 20)
								checkString(c, s, fmt.Sprintf("two %q around character offset %d", w, pos), "str-boundary")
							}
						}
					}
				}
				c.Outcome("str-boundary")
				c.Cover("str-boundary")
			}})
			maxB := 3*binChunk + 40
			if tier == "thorough" {
				maxB = 5*binChunk + 40
			}
			pats := []struct {
				name string
				f    func(i int) byte
			}{{"zero", func(int) byte { return 0 }}, {"ff", func(int) byte { return 0xff }}, {"count", func(i int) byte { return byte(i) }}, {"taglike", func(i int) byte { return "bBZNA"[i%5] }}}
			for pi, p := range pats {
				_ = pi
				p := p
				for part := 0; part < 4; part++ {
					part := part
					us = append(us, core.Unit{Name: fmt.Sprintf("binlen:%s:%d", p.name, part), Cost: 40, Run: func(c *core.Ctx) {
						for n := part; n <= maxB; n += 4 {
							if !c.Begin() {
								continue
							}
							c.NontrivialN(1)
							b := make([]byte, n)
							for i := range b {
								b[i] = p.f(i)
							}
							checkBinary(c, b, fmt.Sprintf("binary of %d octets, pattern %s", n, p.name), "binlen:"+p.name)
						}
						c.Outcome("binlen:" + p.name)
						c.Cover("binlen:" + p.name)
					}})
				}
			}
			us = append(us, core.Unit{Name: "positions", Cost: 30, Run: func(c *core.Ctx) {
				lens := []int{0, 1, 15, 16, 31, 32, 1023, 1024, 2047, 2048, 2049, 4095, 4096, 4097, 4112, 4600, 5119, 5120, 6144, 6145, 8192, 8193, 8292}
				for _, n := range lens {
					for _, cl := range strClasses {
						b := make([]byte, n)
						for i := range b {
							b[i] = byte(i * 7)
						}
						checkStrPositions(c, mkString(cl.unit, n), b, fmt.Sprintf("StrPos with %d x %q and %d octets at every position", n, cl.unit, n))
					}
				}
				// a wide character at every offset around each chunk boundary, at every position
				for _, b := range []int{strChunk, 2 * strChunk} {
					for off := -3; off <= 3; off++ {
						for _, w := range []string{"é", "中", "😀"} {
							pos := b + off
							s := mkString("a", pos) + w + mkString("z", 10)
							checkStrPositions(c, s, []byte{1, 2, 3}, fmt.Sprintf("StrPos with %d x 'a', %q, 10 x 'z' at every position", pos, w))
						}
					}
				}
				c.Cover("positions")
				c.Sample("StrPos{S:\"\", L:[\"\" m \"\" n \"\"], MK:{\"\":5}, MV:{k:\"\"}, B:[], LB:[[] [9] []]}")
			}})
			// very many distinct strings in one message: each must come back as itself (a table keyed by
			// anything shorter than the content would merge two of them)
			us = append(us, core.Unit{Name: "distinct-strings", Cost: 30, Run: func(c *core.Ctx) {
				for _, n := range []int{70000, tierPick(tier, 300000, 1200000)} {
					for _, form := range []string{"[]string", "map keys"} {
						if !c.Begin() {
							continue
						}
						c.NontrivialN(1)
						desc := fmt.Sprintf("%d distinct 8-character strings as %s", n, form)
						l := make([]string, n)
						for i := range l {
							l[i] = fmt.Sprintf("%08x", uint32(i)*2654435761)
						}
						var v interface{} = l
						if form == "map keys" {
							m := make(map[string]int32, n)
							for i, s := range l {
								m[s] = int32(i)
							}
							v = m
						}
						enc := Encode(v, nil)
						dec := Decode(enc.Bytes, nil)
						if !enc.OK() || !dec.OK() {
							c.Report(&core.Violation{Stage: "roundtrip", Kind: "error", Shape: "distinct-strings", Message: msgClass(fmt.Sprint(enc.Err, enc.Panic, dec.Err, dec.Panic)), Case: desc})
							continue
						}
						bad := ""
						switch g := dec.Val.(type) {
						case []string:
							if len(g) != n {
								bad = fmt.Sprintf("%d elements", len(g))
							}
							for i := 0; bad == "" && i < n; i++ {
								if g[i] != l[i] {
									bad = fmt.Sprintf("element %d is %q, written %q", i, g[i], l[i])
								}
							}
						case []interface{}:
							if len(g) != n {
								bad = fmt.Sprintf("%d elements", len(g))
							}
							for i := 0; bad == "" && i < n; i++ {
								if g[i] != interface{}(l[i]) {
									bad = fmt.Sprintf("element %d is %v, written %q", i, g[i], l[i])
								}
							}
						case map[interface{}]interface{}:
							if len(g) != n {
								bad = fmt.Sprintf("%d entries", len(g))
							}
							for i := 0; bad == "" && i < n; i++ {
								if g[l[i]] != interface{}(int32(i)) {
									bad = fmt.Sprintf("entry %q is %v, written %d", l[i], g[l[i]], i)
								}
							}
						case map[string]int32:
							if len(g) != n {
								bad = fmt.Sprintf("%d entries", len(g))
							}
							for i := 0; bad == "" && i < n; i++ {
								if x, ok := g[l[i]]; !ok || x != int32(i) {
									bad = fmt.Sprintf("entry %q is %v, written %d", l[i], x, i)
								}
							}
						default:
							bad = fmt.Sprintf("decoded %T", dec.Val)
						}
						if bad != "" {
							c.Report(&core.Violation{Stage: "decode", Kind: "mismatch", Shape: "distinct-strings", Message: msgClass(bad), Case: desc})
						} else {
							c.Outcome("distinct-strings-exact")
						}
					}
				}
				c.Cover("distinct-strings")
			}})
			return us
		},
		RequireCover: func(string) []string {
			return []string{"positions", "str-boundary", "distinct-strings", "strlen:ascii", "strlen:3byte", "binlen:zero"}
		},
	})
}
