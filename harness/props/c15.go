package props

import (
	"fmt"
	"io"
	"strings"

	hessian "github.com/vogo/gohessian"

	"verif/harness/core"
	"verif/harness/guard"
	"verif/harness/zoo"
)

var c15Entries = []string{"Encoder.WriteTo", "Encoder.WriteObject(first)", "Encoder.WriteObject(second)", "Serializer.WriteTo", "Serializer.Write(second)"}

// runEntry encodes val through one entry point into w and returns (error, panic). For the
// "second" entry points a small value is written first through a writer that cannot fail.
func runEntry(entry int, val interface{}, nm map[string]string, w io.Writer) (err error, pmsg string) {
	pmsg = core.Catch(func() {
		switch entry {
		case 0:
			err = hessian.NewEncoder(nil, nm).WriteTo(w, val)
		case 1:
			err = hessian.NewEncoder(w, nm).WriteObject(val)
		case 2:
			e := hessian.NewEncoder(w, nm)
			if e0 := e.WriteObject(int32(7)); e0 != nil {
				err = fmt.Errorf("prefix value failed: %v", e0)
				return
			}
			err = e.WriteObject(val)
		case 3:
			err = hessian.NewSerializer(nil, nm).WriteTo(w, val)
		case 4:
			s := hessian.NewSerializer(nil, nm)
			if e0 := s.WriteTo(w, int32(7)); e0 != nil {
				err = fmt.Errorf("prefix value failed: %v", e0)
				return
			}
			err = s.Write(val)
		}
	})
	return
}

func sizeKey(sizes []int) string {
	var sb strings.Builder
	for _, s := range sizes {
		fmt.Fprintf(&sb, "%d,", s)
	}
	return sb.String()
}

func init() {
	core.Register(&core.Prop{
		ID: "C15", Level: "fault_enumeration",
		Rule:        "For every value of the zoo enumeration (<=k deviating positions), deduplicated per zoo type by the sequence of Write sizes it produces, a counting pass gives the number n of Write calls; then every call index 0..n-1 x fault kinds {error once, error from then on, short count + io.ErrShortWrite, short count + nil error, zero count + nil error, full count together with an error} x entry points {Encoder.WriteTo, Encoder.WriteObject as first and as second value of a stream, Serializer.WriteTo, Serializer.Write as second value} is executed on the real encoder with a fault-injecting writer, both a plain io.Writer and one that also implements io.ByteWriter; the same for six large values (1100-1200 element lists, 20000-octet binary, 9000-char string). Oracle: whenever the writer returned an error or a short count for a non-empty write the call returns a non-nil error and does not panic. Non-trivial = a fault was injected and bytes were lost; distinct = (write-size sequence, type, entry, fault kind, index).",
		Assumptions: []string{"faults are injected at Write-call granularity on the caller-supplied io.Writer, the encoder's only contact with its destination", "a zero-length Write cannot lose bytes and is not counted as a fault"},
		Units: func(tier string) []core.Unit {
			var us []core.Unit
			for i := range zoo.Types {
				t := &zoo.Types[i]
				k := 1
				if tier == "thorough" && t.Small {
					k = 2
				}
				kk := k
				us = append(us, core.Unit{Name: fmt.Sprintf("faults:%s:k%d", t.Name, kk), Cost: 10 * kk, Run: func(c *core.Ctx) {
					seen := map[string]bool{}
					ForEachZooNoBegin(c, t, kk, func(zc *ZooCase) {
						_, nm, p := Maps(zc.Val)
						if p != "" {
							return
						}
						faultAll(c, seen, t.Name, zc.Val, nm, zc.Desc, zc.Choices, zc.Devs > 0)
					})
				}})
			}
			// large values: block- or buffer-wise writers only show beyond about a thousand elements / 8 KiB
			for _, lv := range []struct {
				name string
				mk   func() interface{}
			}{
				{"[]string of 1100 x 8 chars", func() interface{} {
					l := make([]string, 1100)
					for i := range l {
						l[i] = fmt.Sprintf("%08d", i)
					}
					return l
				}},
				{"[]int64 of 1200 nine-octet values", func() interface{} {
					l := make([]int64, 1200)
					for i := range l {
						l[i] = int64(1)<<40 + int64(i)
					}
					return l
				}},
				{"[]interface{} of 1100 ints and strings", func() interface{} {
					l := make([]interface{}, 1100)
					for i := range l {
						if i%2 == 0 {
							l[i] = int32(i * 1000)
						} else {
							l[i] = "element"
						}
					}
					return l
				}},
				{"[]Inner of 1100", func() interface{} {
					l := make([]zoo.Inner, 1100)
					for i := range l {
						l[i] = zoo.Inner{A: int32(i), S: "in"}
					}
					return &zoo.SlInner{L: l, End: 1}
				}},
				{"binary of 20000 octets", func() interface{} { return make([]byte, 20000) }},
				{"string of 9000 chars", func() interface{} { return strings.Repeat("s", 9000) }},
			} {
				lv := lv
				us = append(us, core.Unit{Name: "large:" + lv.name, Cost: 60, Run: func(c *core.Ctx) {
					v := lv.mk()
					_, nm, p := Maps(v)
					if p != "" {
						return
					}
					faultAll(c, map[string]bool{}, "large", v, nm, lv.name, nil, false)
				}})
			}
			return us
		},
		RequireCover: func(string) []string {
			return []string{"type:large", "type:Scalars", "type:SlInner", "type:MpStrI32", "type:Many", "type:Node", "type:top[]string", "type:topNamedMap"}
		},
		MinOutcomes: 1,
	})
}

// faultAll injects every fault kind at every Write call of every entry point, for a plain io.Writer and
// for a destination that also implements io.ByteWriter (a WriteByte call is a one-byte write).
func faultAll(c *core.Ctx, seen map[string]bool, cover string, val interface{}, nm map[string]string, vdesc string, choices []int, sample bool) {
	for _, byteWriter := range []bool{false, true} {
		mkDst := func(w *guard.Writer) io.Writer {
			if byteWriter {
				return guard.ByteWriter{Writer: w}
			}
			return w
		}
		// counting pass
		w0 := guard.NewWriter()
		if err, p := runEntry(0, val, copyNameMap(nm), mkDst(w0)); err != nil || p != "" {
			return // not encodable at all: C01/C13's concern
		}
		key := fmt.Sprint(byteWriter) + sizeKey(w0.Sizes)
		if seen[key] {
			continue
		}
		seen[key] = true
		c.Cover("type:" + cover)
		for entry := range c15Entries {
			extra := 0
			if entry == 2 || entry == 4 {
				extra = 1
			}
			for kind := guard.FaultOnce; kind < guard.NumFaultKinds; kind++ {
				for at := extra; at < w0.Calls+extra; at++ {
					if !c.Begin() {
						continue
					}
					w := guard.NewWriter()
					w.FaultAt, w.Kind = at, kind
					err, pmsg := runEntry(entry, val, copyNameMap(nm), mkDst(w))
					c.Res.States++
					c.Res.Transitions += int64(w.Calls)
					if !w.Lost {
						c.Outcome("no-bytes-lost")
						continue
					}
					c.NontrivialN(1)
					dst := "io.Writer"
					if byteWriter {
						dst = "io.Writer + io.ByteWriter"
					}
					desc := fmt.Sprintf("%s | %s into %s | fault %s at Write #%d of %d", vdesc, c15Entries[entry], dst, guard.FaultName(kind), at, w0.Calls+extra)
					shape := c15Entries[entry] + " " + guard.FaultName(kind)
					switch {
					case pmsg != "":
						c.Report(&core.Violation{Stage: "encode", Kind: "panic", Shape: shape, Message: msgClass(pmsg), Case: desc, Choices: choices})
					case err == nil:
						c.Report(&core.Violation{Stage: "encode", Kind: "success-reported", Shape: shape, Message: "encode call returned nil although the writer reported a failure at " + writeRole(w0.Sizes, at-extra, w0.Calls),
							Case: desc, Detail: fmt.Sprintf("write sizes %v", trimSizes(w0.Sizes)), Choices: choices})
					default:
						c.Outcome("error-surfaced")
					}
					if c.WantSample() && at == w0.Calls/2 && sample {
						c.Sample(desc)
					}
				}
			}
		}
	}
}

func trimSizes(s []int) []int {
	if len(s) > 40 {
		return s[:40]
	}
	return s
}

// writeRole gives a coarse, value-independent description of which write failed.
func writeRole(sizes []int, at, n int) string {
	switch {
	case at == 0:
		return "the first write"
	case at == n-1:
		return "the last write"
	}
	return "a middle write"
}

// ForEachZooNoBegin enumerates zoo values without opening a case per value (the caller opens cases).
func ForEachZooNoBegin(c *core.Ctx, t *zoo.T, bound int, fn func(zc *ZooCase)) {
	forEachZooRaw(c, t, bound, true, fn)
}
