package props

import (
	"fmt"
	"strings"

	hessian "github.com/vogo/gohessian"

	"verif/harness/core"
	"verif/harness/guard"
	"verif/harness/zoo"
)

var c15Entries = []string{"Encoder.WriteTo", "Encoder.WriteObject(first)", "Encoder.WriteObject(second)", "Serializer.WriteTo", "Serializer.Write(second)"}

// runEntry encodes val through one entry point into w and returns (error, panic). For the
// "second" entry points a small value is written first through a writer that cannot fail.
func runEntry(entry int, val interface{}, nm map[string]string, w *guard.Writer) (err error, pmsg string) {
	pmsg = core.Catch(func() {
		switch entry {
		case 0:
			err = hessian.NewEncoder(nil, nm).WriteTo(w, val)
		case 1:
			err = hessian.NewEncoder(w, nm).WriteObject(val)
		case 2:
			e := hessian.NewEncoder(w, nm)
			if e0 := e.WriteObject(int32(7)); e0 != nil {
				err = fmt.Errorf("prefix value failed: %v", e0)
				return
			}
			err = e.WriteObject(val)
		case 3:
			err = hessian.NewSerializer(nil, nm).WriteTo(w, val)
		case 4:
			s := hessian.NewSerializer(nil, nm)
			if e0 := s.WriteTo(w, int32(7)); e0 != nil {
				err = fmt.Errorf("prefix value failed: %v", e0)
				return
			}
			err = s.Write(val)
		}
	})
	return
}

func sizeKey(sizes []int) string {
	var sb strings.Builder
	for _, s := range sizes {
		fmt.Fprintf(&sb, "%d,", s)
	}
	return sb.String()
}

func init() {
	core.Register(&core.Prop{
		ID: "C15", Level: "fault_enumeration",
		Rule:        "For every value of the zoo enumeration (<=k deviating positions), deduplicated per zoo type by the sequence of Write sizes it produces, a counting pass gives the number n of Write calls; then every call index 0..n-1 x fault kinds {error once, error from then on, short count + io.ErrShortWrite, short count + nil error, zero count + nil error} x entry points {Encoder.WriteTo, Encoder.WriteObject as first and as second value of a stream, Serializer.WriteTo, Serializer.Write as second value} is executed on the real encoder with a fault-injecting writer. Oracle: whenever bytes were lost the call returns a non-nil error and does not panic. Non-trivial = a fault was injected and bytes were lost; distinct = (write-size sequence, type, entry, fault kind, index).",
		Assumptions: []string{"faults are injected at Write-call granularity on the caller-supplied io.Writer, the encoder's only contact with its destination", "a zero-length Write cannot lose bytes and is not counted as a fault"},
		Units: func(tier string) []core.Unit {
			var us []core.Unit
			for i := range zoo.Types {
				t := &zoo.Types[i]
				k := 1
				if tier == "thorough" && t.Small {
					k = 2
				}
				kk := k
				us = append(us, core.Unit{Name: fmt.Sprintf("faults:%s:k%d", t.Name, kk), Cost: 10 * kk, Run: func(c *core.Ctx) {
					seen := map[string]bool{}
					ForEachZooNoBegin(c, t, kk, func(zc *ZooCase) {
						_, nm, p := Maps(zc.Val)
						if p != "" {
							return
						}
						// counting pass
						w0 := guard.NewWriter()
						if err, p := runEntry(0, zc.Val, copyNameMap(nm), w0); err != nil || p != "" {
							return // not encodable at all: C01/C13's concern
						}
						key := sizeKey(w0.Sizes)
						if seen[key] {
							return
						}
						seen[key] = true
						c.Cover("type:" + t.Name)
						for entry := range c15Entries {
							extra := 0
							if entry == 2 || entry == 4 {
								extra = 1
							}
							for kind := guard.FaultOnce; kind < guard.NumFaultKinds; kind++ {
								for at := extra; at < w0.Calls+extra; at++ {
									if !c.Begin() {
										continue
									}
									w := guard.NewWriter()
									w.FaultAt, w.Kind = at, kind
									err, pmsg := runEntry(entry, zc.Val, copyNameMap(nm), w)
									c.Res.States++
									c.Res.Transitions += int64(w.Calls)
									if !w.Lost {
										c.Outcome("no-bytes-lost")
										continue
									}
									c.NontrivialN(1)
									desc := fmt.Sprintf("%s | %s | fault %s at Write #%d of %d", zc.Desc, c15Entries[entry], guard.FaultName(kind), at, w0.Calls+extra)
									shape := c15Entries[entry] + " " + guard.FaultName(kind)
									switch {
									case pmsg != "":
										c.Report(&core.Violation{Stage: "encode", Kind: "panic", Shape: shape, Message: msgClass(pmsg), Case: desc, Choices: zc.Choices})
									case err == nil:
										c.Report(&core.Violation{Stage: "encode", Kind: "success-reported", Shape: shape, Message: "encode call returned nil although the writer lost bytes at " + writeRole(w0.Sizes, at-extra, w0.Calls),
											Case: desc, Detail: fmt.Sprintf("write sizes %v", w0.Sizes), Choices: zc.Choices})
									default:
										c.Outcome("error-surfaced")
									}
									if c.WantSample() && at == w0.Calls/2 && zc.Devs > 0 {
										c.Sample(desc)
									}
								}
							}
						}
					})
				}})
			}
			return us
		},
		RequireCover: func(string) []string {
			return []string{"type:Scalars", "type:SlInner", "type:MpStrI32", "type:Many", "type:Node", "type:top[]string", "type:topNamedMap"}
		},
		MinOutcomes: 1,
	})
}

// writeRole gives a coarse, value-independent description of which write failed.
func writeRole(sizes []int, at, n int) string {
	switch {
	case at == 0:
		return "the first write"
	case at == n-1:
		return "the last write"
	}
	return "a middle write"
}

// ForEachZooNoBegin enumerates zoo values without opening a case per value (the caller opens cases).
func ForEachZooNoBegin(c *core.Ctx, t *zoo.T, bound int, fn func(zc *ZooCase)) {
	forEachZooRaw(c, t, bound, true, fn)
}
