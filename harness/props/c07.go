package props

import (
	"bytes"
	"fmt"
	"math"
	"math/big"
	"reflect"
	"sort"

	hessian "github.com/vogo/gohessian"

	"verif/harness/core"
	"verif/harness/guard"
	rh "verif/harness/refhessian"
)

// integer position structs, one per Go integer kind
type IntPosI8 struct {
	F int8
	L []int8
	M map[int8]int8
}
type IntPosI16 struct {
	F int16
	L []int16
	M map[int16]int16
}
type IntPosI32 struct {
	F int32
	L []int32
	M map[int32]int32
}
type IntPosI struct {
	F int
	L []int
	M map[int]int
}
type IntPosI64 struct {
	F int64
	L []int64
	M map[int64]int64
}
type IntPosU8 struct {
	F uint8
	M map[uint8]uint8
}
type IntPosU16 struct {
	F uint16
	L []uint16
	M map[uint16]uint16
}
type IntPosU32 struct {
	F uint32
	L []uint32
	M map[uint32]uint32
}
type IntPosU struct {
	F uint
	L []uint
	M map[uint]uint
}
type IntPosU64 struct {
	F uint64
	L []uint64
	M map[uint64]uint64
}

type intKind struct {
	name   string
	typ    reflect.Type
	signed bool
	bits   int
	long   bool // wire type long (else int)
	holder reflect.Type
}

var intKinds = []intKind{
	{"int8", reflect.TypeOf(int8(0)), true, 8, false, reflect.TypeOf(IntPosI8{})},
	{"int16", reflect.TypeOf(int16(0)), true, 16, false, reflect.TypeOf(IntPosI16{})},
	{"int32", reflect.TypeOf(int32(0)), true, 32, false, reflect.TypeOf(IntPosI32{})},
	{"int", reflect.TypeOf(int(0)), true, 64, false, reflect.TypeOf(IntPosI{})},
	{"int64", reflect.TypeOf(int64(0)), true, 64, true, reflect.TypeOf(IntPosI64{})},
	{"uint8", reflect.TypeOf(uint8(0)), false, 8, false, reflect.TypeOf(IntPosU8{})},
	{"uint16", reflect.TypeOf(uint16(0)), false, 16, false, reflect.TypeOf(IntPosU16{})},
	{"uint32", reflect.TypeOf(uint32(0)), false, 32, true, reflect.TypeOf(IntPosU32{})},
	{"uint", reflect.TypeOf(uint(0)), false, 64, true, reflect.TypeOf(IntPosU{})},
	{"uint64", reflect.TypeOf(uint64(0)), false, 64, true, reflect.TypeOf(IntPosU64{})},
}

// structured sets -----------------------------------------------------------

var byteAlphabet = []byte{0x00, 0x01, 0x7f, 0x80, 0xff}

func int32Structured() []int32 {
	set := map[int32]bool{}
	var rec func(d int, v uint32)
	rec = func(d int, v uint32) {
		if d == 4 {
			set[int32(v)] = true
			return
		}
		for _, b := range byteAlphabet {
			rec(d+1, v<<8|uint32(b))
		}
	}
	rec(0, 0)
	for _, b := range []int64{-16, 47, -2048, 2047, -262144, 262143, math.MinInt32, math.MaxInt32, 0} {
		for d := int64(-3); d <= 3; d++ {
			if x := b + d; x >= math.MinInt32 && x <= math.MaxInt32 {
				set[int32(x)] = true
			}
		}
	}
	for k := 0; k < 32; k++ {
		for _, s := range []int64{1, -1} {
			for d := int64(-1); d <= 1; d++ {
				if x := s*(int64(1)<<uint(k)) + d; x >= math.MinInt32 && x <= math.MaxInt32 {
					set[int32(x)] = true
				}
			}
		}
	}
	var l []int32
	for v := range set {
		l = append(l, v)
	}
	sort.Slice(l, func(i, j int) bool { return l[i] < l[j] })
	return l
}

func int64Boundaries() []int64 {
	set := map[int64]bool{}
	add := func(x *big.Int) {
		if x.IsInt64() {
			set[x.Int64()] = true
		}
	}
	for _, b := range []int64{-8, 15, -2048, 2047, -262144, 262143, math.MinInt32, math.MaxInt32, math.MinInt64, math.MaxInt64, 0, -16, 47} {
		for d := int64(-3); d <= 3; d++ {
			add(new(big.Int).Add(big.NewInt(b), big.NewInt(d)))
		}
	}
	for k := 0; k < 64; k++ {
		p := new(big.Int).Lsh(big.NewInt(1), uint(k))
		for _, s := range []int64{1, -1} {
			for d := int64(-2); d <= 2; d++ {
				add(new(big.Int).Add(new(big.Int).Mul(p, big.NewInt(s)), big.NewInt(d)))
			}
		}
	}
	var l []int64
	for v := range set {
		l = append(l, v)
	}
	sort.Slice(l, func(i, j int) bool { return l[i] < l[j] })
	return l
}

// codec pair reused across a sweep ------------------------------------------

type sweepCodec struct {
	enc *hessian.Encoder
	dec *hessian.Decoder
	buf bytes.Buffer
	rd  guard.Reader
}

func newSweepCodec() *sweepCodec {
	return &sweepCodec{enc: hessian.NewEncoder(nil, nil), dec: hessian.NewDecoder(nil, nil)}
}

func (s *sweepCodec) round(v interface{}) (b []byte, out interface{}, err error) {
	s.buf.Reset()
	if err = s.enc.WriteTo(&s.buf, v); err != nil {
		return nil, nil, err
	}
	b = s.buf.Bytes()
	s.rd = guard.Reader{Data: b}
	out, err = s.dec.ReadFrom(&s.rd)
	if err == nil && s.rd.Pos != len(b) {
		err = fmt.Errorf("decoder consumed %d of %d bytes", s.rd.Pos, len(b))
	}
	if err == nil && len(b) > 2 {
		// the same bytes through a reader that returns one byte per Read call must give the same value
		s.rd = guard.Reader{Data: b, MaxChunk: 1}
		out2, err2 := s.dec.ReadFrom(&s.rd)
		if err2 != nil {
			err = fmt.Errorf("with a reader returning one byte per Read: %v", err2)
		} else if out2 != out && !(out2 != out2 && out != out) {
			err = fmt.Errorf("with a reader returning one byte per Read the value is %v instead of %v", out2, out)
		}
	}
	if err == nil {
		// and through a reader that returns io.EOF in the same Read call as the last bytes
		s.rd = guard.Reader{Data: b, EOFWithData: true}
		out3, err3 := s.dec.ReadFrom(&s.rd)
		if err3 != nil {
			err = fmt.Errorf("with a reader returning io.EOF together with the last bytes: %v", err3)
		} else if out3 != out && !(out3 != out3 && out != out) {
			err = fmt.Errorf("with a reader returning io.EOF together with the last bytes the value is %v instead of %v", out3, out)
		}
	}
	if err == nil {
		// and through the byte-slice entry point (its own reader set-up, possibly its own fast paths)
		out4, err4 := s.dec.Decode(b)
		if err4 != nil {
			err = fmt.Errorf("Decoder.Decode of the byte slice: %v", err4)
		} else if out4 != out && !(out4 != out4 && out != out) {
			err = fmt.Errorf("Decoder.Decode of the byte slice gives %v instead of %v", out4, out)
		}
	}
	return
}

func intShape(v int64) string {
	switch {
	case v >= -16 && v <= 47:
		return "1-octet"
	case v >= -2048 && v <= 2047:
		return "2-octet"
	case v >= -262144 && v <= 262143:
		return "3-octet"
	case v >= math.MinInt32 && v <= math.MaxInt32:
		return "32-bit"
	}
	return "64-bit"
}

func checkInt32(c *core.Ctx, s *sweepCodec, v int32, scratch []byte) {
	b, out, err := s.round(v)
	if err != nil {
		c.Report(&core.Violation{Stage: "roundtrip", Kind: "error", Shape: "int32 " + intShape(int64(v)), Message: msgClass(err.Error()), Case: fmt.Sprintf("int32(%d)", v)})
		return
	}
	want := rh.AppendInt(scratch[:0], v, rh.IntForms(v)[0])
	if !bytes.Equal(b, want) {
		c.Report(&core.Violation{Stage: "encode", Kind: "form", Shape: "int32 " + intShape(int64(v)), Message: fmt.Sprintf("not the shortest int form: %d octets, shortest is %d", len(b), len(want)), Case: fmt.Sprintf("int32(%d)", v), Detail: fmt.Sprintf("got %x want %x", b, want)})
		return
	}
	if o, ok := out.(int32); !ok || o != v {
		c.Report(&core.Violation{Stage: "decode", Kind: "mismatch", Shape: "int32 " + intShape(int64(v)), Message: "decoded int differs from the encoded one", Case: fmt.Sprintf("int32(%d)", v), Detail: fmt.Sprintf("bytes %x decoded %T(%v)", b, out, out)})
	}
}

func checkInt64(c *core.Ctx, s *sweepCodec, v int64, scratch []byte) {
	b, out, err := s.round(v)
	if err != nil {
		c.Report(&core.Violation{Stage: "roundtrip", Kind: "error", Shape: "int64 " + intShape(v), Message: msgClass(err.Error()), Case: fmt.Sprintf("int64(%d)", v)})
		return
	}
	want := rh.AppendLong(scratch[:0], v, rh.LongForms(v)[0])
	if !bytes.Equal(b, want) {
		c.Report(&core.Violation{Stage: "encode", Kind: "form", Shape: "int64 " + intShape(v), Message: fmt.Sprintf("not the shortest long form: %d octets, shortest is %d", len(b), len(want)), Case: fmt.Sprintf("int64(%d)", v), Detail: fmt.Sprintf("got %x want %x", b, want)})
		return
	}
	if o, ok := out.(int64); !ok || o != v {
		c.Report(&core.Violation{Stage: "decode", Kind: "mismatch", Shape: "int64 " + intShape(v), Message: "decoded long differs from the encoded one", Case: fmt.Sprintf("int64(%d)", v), Detail: fmt.Sprintf("bytes %x decoded %T(%v)", b, out, out)})
	}
}

// numeric value of any Go integer as big.Int
func bigOf(v reflect.Value) *big.Int {
	switch v.Kind() {
	case reflect.Int, reflect.Int8, reflect.Int16, reflect.Int32, reflect.Int64:
		return big.NewInt(v.Int())
	case reflect.Uint, reflect.Uint8, reflect.Uint16, reflect.Uint32, reflect.Uint64:
		return new(big.Int).SetUint64(v.Uint())
	}
	return nil
}

// kindValue converts x to the kind if representable.
func kindValue(k intKind, x *big.Int) (reflect.Value, bool) {
	v := reflect.New(k.typ).Elem()
	if k.signed {
		if !x.IsInt64() {
			return v, false
		}
		i := x.Int64()
		if k.bits < 64 && (i < -(1<<uint(k.bits-1)) || i > (1<<uint(k.bits-1))-1) {
			return v, false
		}
		v.SetInt(i)
		return v, true
	}
	if x.Sign() < 0 || !x.IsUint64() {
		return v, false
	}
	u := x.Uint64()
	if k.bits < 64 && u > (1<<uint(k.bits))-1 {
		return v, false
	}
	v.SetUint(u)
	return v, true
}

var (
	bigMinI32 = big.NewInt(math.MinInt32)
	bigMaxI32 = big.NewInt(math.MaxInt32)
	bigMinI64 = big.NewInt(math.MinInt64)
	bigMaxI64 = big.NewInt(math.MaxInt64)
)

func fitsWire(k intKind, x *big.Int) bool {
	if k.long {
		return x.Cmp(bigMinI64) >= 0 && x.Cmp(bigMaxI64) <= 0
	}
	return x.Cmp(bigMinI32) >= 0 && x.Cmp(bigMaxI32) <= 0
}

func wireShortest(k intKind, x *big.Int) []byte {
	if k.long {
		return rh.AppendLong(nil, x.Int64(), rh.LongForms(x.Int64())[0])
	}
	return rh.AppendInt(nil, int32(x.Int64()), rh.IntForms(int32(x.Int64()))[0])
}

// checkKindPositions checks one number in one Go kind at the four positions.
func checkKindPositions(c *core.Ctx, k intKind, x *big.Int) {
	kv, ok := kindValue(k, x)
	if !ok {
		return
	}
	fits := fitsWire(k, x)
	rangeClass := "in-range"
	if !fits {
		rangeClass = "beyond-wire-type"
	}
	report := func(pos, stage, kind, msg, detail string) {
		c.Report(&core.Violation{Stage: stage, Kind: kind, Shape: k.name + " " + pos + " " + rangeClass, Message: msgClass(msg), Case: fmt.Sprintf("%s(%s) at %s", k.name, x, pos), Detail: detail})
	}
	// position 1: top level
	func() {
		if !c.Begin() {
			return
		}
		c.NontrivialN(1)
		enc := Encode(kv.Interface(), nil)
		if enc.Panic != "" {
			report("top", "encode", "panic", enc.Panic, "")
			return
		}
		if enc.Err != nil {
			if fits {
				report("top", "encode", "error", enc.Err.Error(), "")
			}
			c.Outcome("encode-error")
			return
		}
		if fits {
			if want := wireShortest(k, x); !bytes.Equal(enc.Bytes, want) {
				report("top", "encode", "form", fmt.Sprintf("not the shortest form: %d octets, shortest is %d", len(enc.Bytes), len(want)), fmt.Sprintf("got %x want %x", enc.Bytes, want))
				return
			}
		}
		dec := Decode(enc.Bytes, nil)
		if !dec.OK() {
			report("top", "decode", "error", fmt.Sprint(dec.Err, dec.Panic), hexs(enc.Bytes))
			return
		}
		got := bigOf(reflect.ValueOf(dec.Val))
		if got == nil || got.Cmp(x) != 0 {
			report("top", "decode", "altered", "integer silently altered: a different number comes back and no error was reported", fmt.Sprintf("bytes %x decoded %T(%v)", enc.Bytes, dec.Val, dec.Val))
			return
		}
		c.Outcome("exact")
	}()
	// positions 2-4: struct field, list element, map key+value - each in a holder of its own, so that a
	// refusal at one position cannot hide what happens at another
	for _, pos := range []string{"field", "element", "entry"} {
		if !c.Begin() {
			continue
		}
		c.NontrivialN(1)
		h := reflect.New(k.holder)
		switch pos {
		case "field":
			h.Elem().FieldByName("F").Set(kv)
		case "element":
			f := h.Elem().FieldByName("L")
			if !f.IsValid() {
				continue
			}
			sl := reflect.MakeSlice(f.Type(), 3, 3)
			sl.Index(1).Set(kv)
			f.Set(sl)
		case "entry":
			m := reflect.MakeMap(h.Elem().FieldByName("M").Type())
			m.SetMapIndex(kv, kv)
			h.Elem().FieldByName("M").Set(m)
		}
		tm, nm, p := Maps(h.Interface())
		if p != "" {
			report(pos, "maps", "panic", p, "")
			continue
		}
		enc := Encode(h.Interface(), nm)
		if enc.Panic != "" {
			report(pos, "encode", "panic", enc.Panic, "")
			continue
		}
		if enc.Err != nil {
			if fits {
				report(pos, "encode", "error", enc.Err.Error(), "")
			}
			c.Outcome("encode-error")
			continue
		}
		if fits {
			want := wireShortest(k, x)
			need := 1
			if pos == "entry" {
				need = 2
			}
			if bytes.Count(enc.Bytes, want) < need {
				report(pos, "encode", "form", "field/element/entry not in the shortest form", fmt.Sprintf("bytes %x shortest %x", enc.Bytes, want))
				continue
			}
		}
		dec := Decode(enc.Bytes, tm)
		if !dec.OK() {
			report(pos, "decode", "error", fmt.Sprint(dec.Err, dec.Panic), hexs(enc.Bytes))
			continue
		}
		dv := reflect.ValueOf(dec.Val)
		if dv.Kind() != reflect.Ptr || dv.Elem().Type() != k.holder {
			report(pos, "decode", "type", fmt.Sprintf("decoded %T", dec.Val), "")
			continue
		}
		d := dv.Elem()
		altered := "integer silently altered: a different number comes back and no error was reported"
		switch pos {
		case "field":
			if g := bigOf(d.FieldByName("F")); g.Cmp(x) != 0 {
				report(pos, "decode", "altered", altered, fmt.Sprintf("field F = %s", g))
				continue
			}
		case "element":
			f := d.FieldByName("L")
			if f.Len() != 3 || bigOf(f.Index(1)).Cmp(x) != 0 || bigOf(f.Index(0)).Sign() != 0 {
				report(pos, "decode", "altered", altered, fmt.Sprintf("list = %v", f.Interface()))
				continue
			}
		case "entry":
			dm := d.FieldByName("M")
			bad := dm.Len() != 1
			for _, key := range dm.MapKeys() {
				if bigOf(key).Cmp(x) != 0 || bigOf(dm.MapIndex(key)).Cmp(x) != 0 {
					bad = true
				}
			}
			if bad {
				report(pos, "decode", "altered", altered, fmt.Sprintf("map = %v", dm.Interface()))
				continue
			}
		}
		c.Outcome("exact")
	}
	// a value the wire type cannot carry, as a map VALUE with another entry after it: whatever order the
	// map is written in, the refusal must survive (16 fresh maps: Go's iteration order is random)
	if !fits {
		if !c.Begin() {
			return
		}
		c.NontrivialN(1)
		for rep := 0; rep < 16; rep++ {
			h := reflect.New(k.holder)
			m := reflect.MakeMap(h.Elem().FieldByName("M").Type())
			one := reflect.New(k.typ).Elem()
			two := reflect.New(k.typ).Elem()
			if k.signed {
				one.SetInt(1)
				two.SetInt(2)
			} else {
				one.SetUint(1)
				two.SetUint(2)
			}
			m.SetMapIndex(one, kv)
			m.SetMapIndex(two, one)
			h.Elem().FieldByName("M").Set(m)
			_, nm, _ := Maps(h.Interface())
			enc := Encode(h.Interface(), nm)
			if enc.Panic != "" {
				report("entry-of-two", "encode", "panic", enc.Panic, "")
				return
			}
			if enc.Err == nil {
				tm, _, _ := Maps(h.Interface())
				dec := Decode(enc.Bytes, tm)
				ok := false
				if dec.OK() {
					if d, isPtr := dec.Val.(interface{}); isPtr {
						dv := reflect.ValueOf(d)
						if dv.Kind() == reflect.Ptr && dv.Elem().Type() == k.holder {
							dm := dv.Elem().FieldByName("M")
							if v1 := dm.MapIndex(one); dm.Len() == 2 && v1.IsValid() && bigOf(v1).Cmp(x) == 0 {
								ok = true
							}
						}
					}
				}
				if !ok {
					report("entry-of-two", "encode", "altered", "a map value the wire type cannot carry was neither refused nor carried exactly", hexs(enc.Bytes))
					return
				}
			}
		}
		c.Outcome("refused-or-exact")
	}
}

func init() {
	core.Register(&core.Prop{
		ID: "C07", Level: "model_checking",
		Rule: "Exhaustive enumeration of integer inputs, each run through the real encoder and decoder and compared with R1's shortest canonical form and with the number itself: (thorough) every one of the 2^32 int32 values; every int32 and int64 whose bytes are all in {00,01,7f,80,ff}; every form boundary +-3; every +-2^k + d; every integer in [-2^20,2^20] as int32 and int64; and a reduced set x ten Go integer kinds x four positions (top level, struct field, slice element, map key and value), including numbers beyond the wire type of the kind. All cases are distinct by construction (enumeration without repetition); every case is non-trivial (a distinct number or a distinct kind/position).",
		Assumptions: []string{
			"int64 is exhaustive only over the structured families, not over 2^64",
			"kind x position sweep uses the structured int32 set, the int64 boundary set and out-of-range representatives",
		},
		Units: func(tier string) []core.Unit {
			var us []core.Unit
			us = append(us, core.Unit{Name: "int32-structured", Cost: 5, Run: func(c *core.Ctx) {
				s := newSweepCodec()
				scratch := make([]byte, 0, 16)
				for _, v := range int32Structured() {
					if !c.Begin() {
						continue
					}
					c.NontrivialN(1)
					checkInt32(c, s, v, scratch)
					c.Outcome(intShape(int64(v)))
				}
				c.Sample("int32(-262145) -> 'I' ff fb ff ff -> int32(-262145)")
			}})
			us = append(us, core.Unit{Name: "int64-boundaries", Cost: 5, Run: func(c *core.Ctx) {
				s := newSweepCodec()
				scratch := make([]byte, 0, 16)
				for _, v := range int64Boundaries() {
					if !c.Begin() {
						continue
					}
					c.NontrivialN(1)
					checkInt64(c, s, v, scratch)
					c.Outcome("long " + intShape(v))
				}
				c.Sample("int64(2147483648) -> 'L' 00 00 00 00 80 00 00 00")
			}})
			for sh := 0; sh < 5; sh++ {
				sh := sh
				us = append(us, core.Unit{Name: fmt.Sprintf("int64-bytealphabet-%d", sh), Cost: 30, Run: func(c *core.Ctx) {
					s := newSweepCodec()
					scratch := make([]byte, 0, 16)
					var rec func(d int, v uint64)
					rec = func(d int, v uint64) {
						if d == 8 {
							if c.Begin() {
								checkInt64(c, s, int64(v), scratch)
							}
							return
						}
						for _, b := range byteAlphabet {
							rec(d+1, v<<8|uint64(b))
						}
					}
					rec(1, uint64(byteAlphabet[sh]))
					c.NontrivialN(c.Res.Evaluations)
					c.Outcome("long bytealphabet")
				}})
			}
			for sh := 0; sh < 8; sh++ {
				sh := sh
				us = append(us, core.Unit{Name: fmt.Sprintf("small-range-%d", sh), Cost: 40, Run: func(c *core.Ctx) {
					s := newSweepCodec()
					scratch := make([]byte, 0, 16)
					lo := -(1 << 20) + sh*(1<<18)
					for v := lo; v < lo+(1<<18)+1; v++ {
						if c.Begin() {
							checkInt32(c, s, int32(v), scratch)
						}
						if c.Begin() {
							checkInt64(c, s, int64(v), scratch)
						}
					}
					c.NontrivialN(c.Res.Evaluations)
					c.Outcome("small-range")
				}})
			}
			// kinds x positions
			for ki := range intKinds {
				k := intKinds[ki]
				us = append(us, core.Unit{Name: "kinds:" + k.name, Cost: 20, Run: func(c *core.Ctx) {
					set := map[string]*big.Int{}
					for _, v := range int32Structured() {
						set[fmt.Sprint(v)] = big.NewInt(int64(v))
					}
					for _, v := range int64Boundaries() {
						set[fmt.Sprint(v)] = big.NewInt(v)
					}
					for k2 := 31; k2 <= 64; k2++ {
						p := new(big.Int).Lsh(big.NewInt(1), uint(k2))
						for d := int64(-2); d <= 2; d++ {
							x := new(big.Int).Add(p, big.NewInt(d))
							set[x.String()] = x
						}
					}
					var keys []string
					for s := range set {
						keys = append(keys, s)
					}
					sort.Strings(keys)
					for _, s := range keys {
						checkKindPositions(c, k, set[s])
					}
					c.Cover("kind:" + k.name)
					c.Sample(fmt.Sprintf("%s(2^40) at top level, struct field, slice element, map key and value", k.name))
				}})
			}
			if tier == "thorough" {
				const shards = 128
				for sh := 0; sh < shards; sh++ {
					sh := sh
					us = append(us, core.Unit{Name: fmt.Sprintf("int32-all-%03d", sh), Cost: 100, Run: func(c *core.Ctx) {
						s := newSweepCodec()
						scratch := make([]byte, 0, 16)
						lo := int64(math.MinInt32) + int64(sh)*(1<<32/shards)
						for v := lo; v < lo+(1<<32/shards); v++ {
							if c.Begin() {
								checkInt32(c, s, int32(v), scratch)
							}
						}
						c.NontrivialN(c.Res.Evaluations)
						c.Outcome("int32-all")
						c.Cover(fmt.Sprintf("int32-all-%03d", sh))
					}})
				}
			}
			us = append(us, largeUnit(tier, "[]int64", "Boundary", "ints"))
			return us
		},
		RequireCover: func(tier string) []string {
			var l []string
			for _, k := range intKinds {
				l = append(l, "kind:"+k.name)
			}
			if tier == "thorough" {
				for sh := 0; sh < 128; sh++ {
					l = append(l, fmt.Sprintf("int32-all-%03d", sh))
				}
			}
			return l
		},
	})
}
