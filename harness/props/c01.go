package props

import (
	"fmt"
	"reflect"
	"time"

	"verif/harness/core"
	rh "verif/harness/refhessian"
	"verif/harness/zoo"
)

var timeT = reflect.TypeOf(time.Time{})

// expectTop computes the dynamic type the decoder is documented to return for a top-level value.
func expectTop(orig interface{}, tm map[string]reflect.Type, nm map[string]string) reflect.Type {
	if orig == nil {
		return nil
	}
	t := reflect.TypeOf(orig)
	for t.Kind() == reflect.Ptr {
		t = t.Elem()
	}
	switch t.Kind() {
	case reflect.Struct:
		if t == timeT {
			return timeT
		}
		return reflect.PtrTo(t)
	case reflect.Bool:
		return reflect.TypeOf(false)
	case reflect.Int8, reflect.Int16, reflect.Int32, reflect.Int, reflect.Uint8, reflect.Uint16:
		return reflect.TypeOf(int32(0))
	case reflect.Int64, reflect.Uint, reflect.Uint32, reflect.Uint64:
		return reflect.TypeOf(int64(0))
	case reflect.Float32, reflect.Float64:
		return reflect.TypeOf(float64(0))
	case reflect.String:
		return reflect.TypeOf("")
	case reflect.Slice, reflect.Array:
		if t.Elem().Kind() == reflect.Uint8 {
			return reflect.TypeOf([]byte(nil))
		}
		if n, ok := nm[zoo.GoTypeName(t)]; ok {
			if rt, ok := tm[n]; ok && rootName(t) != "interface {}" {
				return rt
			}
		}
		return reflect.TypeOf([]interface{}(nil))
	case reflect.Map:
		if t.Name() != "" {
			if n, ok := nm[t.Name()]; ok {
				if rt, ok := tm[n]; ok {
					return rt
				}
			}
		}
		return reflect.TypeOf(map[interface{}]interface{}(nil))
	}
	return t
}

func rootName(t reflect.Type) string {
	for t.Kind() == reflect.Slice || t.Kind() == reflect.Array || t.Kind() == reflect.Ptr {
		t = t.Elem()
	}
	return zoo.GoTypeName(t)
}

// roundTrip performs the C01 check for one value. shape is the signature shape class.
func roundTrip(c *core.Ctx, val interface{}, desc, shape string, choices []int) string {
	return roundTripMaps(c, val, desc, shape, choices, nil, nil)
}

// unionMaps extracts and merges the maps of several values (used for []interface{} holding structs,
// whose element types ExtractTypeNameMap cannot see from the container).
func unionMaps(vals ...interface{}) (map[string]reflect.Type, map[string]string) {
	tm, nm := map[string]reflect.Type{}, map[string]string{}
	for _, v := range vals {
		t, n, _ := Maps(v)
		for k, x := range t {
			tm[k] = x
		}
		for k, x := range n {
			nm[k] = x
		}
	}
	return tm, nm
}

func roundTripMaps(c *core.Ctx, val interface{}, desc, shape string, choices []int, tm map[string]reflect.Type, nm map[string]string) string {
	rep := func(stage, kind, msg, detail string) string {
		c.Report(&core.Violation{Stage: stage, Kind: kind, Shape: shape, Message: msgClass(msg), Case: desc, Detail: detail, Choices: choices})
		return stage + "/" + kind
	}
	if tm == nil {
		var p string
		tm, nm, p = Maps(val)
		if p != "" {
			return rep("maps", "panic", p, "")
		}
	}
	enc := Encode(val, nm)
	if enc.Panic != "" {
		return rep("encode", "panic", enc.Panic, "")
	}
	if enc.Err != nil {
		return rep("encode", "error", enc.Err.Error(), "")
	}
	dec := Decode(enc.Bytes, tm)
	switch {
	case dec.Runaway:
		return rep("decode", "runaway", "reader step budget exceeded", hexs(enc.Bytes))
	case dec.Panic != "":
		return rep("decode", "panic", dec.Panic, hexs(enc.Bytes))
	case dec.Err != nil:
		return rep("decode", "error", dec.Err.Error(), hexs(enc.Bytes))
	}
	if dec.Consumed != len(enc.Bytes) {
		return rep("decode", "framing", fmt.Sprintf("decoder consumed %d of the %d bytes the encoder produced", dec.Consumed, len(enc.Bytes)), hexs(enc.Bytes))
	}
	dn := zoo.NewDenoter(nm)
	var a, b *rh.Value
	if p := core.Catch(func() { a = dn.Denote(val); b = zoo.NewDenoter(nm).Denote(dec.Val) }); p != "" {
		return rep("compare", "undenotable", "decoded value cannot be denoted: "+p, fmt.Sprintf("decoded %T", dec.Val))
	}
	if d := zoo.Bisim(a, b, zoo.BisimOpts{NilEmpty: true, IgnoreTypes: true}); d != "" {
		return rep("compare", "mismatch", "value differs at "+diffShape(d), d+" | bytes "+hexs(enc.Bytes))
	}
	if dec.Val != nil {
		want := expectTop(val, tm, nm)
		if got := reflect.TypeOf(dec.Val); want != nil && got != want {
			return rep("compare", "type", fmt.Sprintf("decoded dynamic type %v, expected %v", got, want), "")
		}
	}
	// the public []byte entry point (bufio over the bytes) and a reader that returns one byte per Read
	// call must give the same value as the plain reader
	for _, alt := range []struct {
		name string
		res  DecRes
	}{{"ToObject", DecodePublic(enc.Bytes, tm)}, {"a reader returning one byte per Read", DecodeTrickle(enc.Bytes, tm)}, {"a reader returning io.EOF together with the last bytes", DecodeEOFWithData(enc.Bytes, tm)}} {
		if !alt.res.OK() {
			return rep("decode", "other-reader", "decoding through "+alt.name+" fails where the plain reader succeeds: "+alt.res.Panic+fmt.Sprint(alt.res.Err), hexs(enc.Bytes))
		}
		var g *rh.Value
		if p := core.Catch(func() { g = zoo.NewDenoter(nm).Denote(alt.res.Val) }); p != "" {
			return rep("compare", "undenotable", "value decoded through "+alt.name+" cannot be denoted: "+p, "")
		}
		if d := zoo.Bisim(a, g, zoo.BisimOpts{NilEmpty: true, IgnoreTypes: true}); d != "" {
			return rep("compare", "other-reader", "value decoded through "+alt.name+" differs at "+diffShape(d), d+" | bytes "+hexs(enc.Bytes))
		}
	}
	// decoding straight from a *bytes.Buffer must not hand out memory of the buffer
	if fb, aliased := DecodeFromBuffer(enc.Bytes, tm, func(x interface{}) string {
		s := ""
		core.Catch(func() { s = zoo.NewDenoter(nm).Denote(x).String() })
		return s
	}); fb.OK() && aliased {
		return rep("decode", "aliases-input", "a value decoded from a *bytes.Buffer changes when the buffer's storage is overwritten afterwards", hexs(enc.Bytes))
	}
	return "ok"
}

func lengthCases() []struct {
	name string
	mk   func(n int) interface{}
} {
	return []struct {
		name string
		mk   func(n int) interface{}
	}{
		{"top[]int32", func(n int) interface{} {
			l := make([]int32, n)
			for i := range l {
				l[i] = int32(i*7 - 20)
			}
			return l
		}},
		{"top[]string", func(n int) interface{} {
			l := make([]string, n)
			for i := range l {
				l[i] = fmt.Sprint("s", i)
			}
			return l
		}},
		{"top[]Inner", func(n int) interface{} {
			l := make([]zoo.Inner, n)
			for i := range l {
				l[i] = zoo.Inner{A: int32(i), S: "x"}
			}
			return l
		}},
		{"field[]int32", func(n int) interface{} {
			l := make([]int32, n)
			for i := range l {
				l[i] = int32(i)
			}
			return &zoo.SlI32{L: l, End: 9}
		}},
		{"field[]int64", func(n int) interface{} {
			l := make([]int64, n)
			for i := range l {
				l[i] = int64(i) << 20
			}
			return &zoo.SlI64{L: l, End: 9}
		}},
		{"field[]string", func(n int) interface{} {
			l := make([]string, n)
			for i := range l {
				l[i] = "q"
			}
			return &zoo.SlStr{L: l, End: 9}
		}},
		{"field[]*Inner", func(n int) interface{} {
			l := make([]*zoo.Inner, n)
			for i := range l {
				l[i] = &zoo.Inner{A: int32(i), S: "p"}
			}
			return &zoo.SlPInner{L: l, End: 9}
		}},
		{"field[]float64", func(n int) interface{} {
			l := make([]float64, n)
			for i := range l {
				l[i] = float64(i) + 0.5
			}
			return &zoo.SlF64{L: l, End: 9}
		}},
		{"field[][]int32", func(n int) interface{} {
			l := make([][]int32, n)
			for i := range l {
				l[i] = []int32{int32(i)}
			}
			return &zoo.SlSlI32{L: l, End: 9}
		}},
		{"field[]any", func(n int) interface{} {
			l := make([]interface{}, n)
			for i := range l {
				l[i] = int32(i)
			}
			return &zoo.SlAny{L: l, End: 9}
		}},
		{"fieldmap[string]int32", func(n int) interface{} {
			m := map[string]int32{}
			for i := 0; i < n; i++ {
				m[fmt.Sprint("k", i)] = int32(i)
			}
			return &zoo.MpStrI32{M: m, End: 9}
		}},
		{"fieldmap[int32]string", func(n int) interface{} {
			m := map[int32]string{}
			for i := 0; i < n; i++ {
				m[int32(i)] = "v"
			}
			return &zoo.MpI32Str{M: m, End: 9}
		}},
		{"topNamedMap", func(n int) interface{} {
			m := zoo.NamedMap{}
			for i := 0; i < n; i++ {
				m[fmt.Sprint("k", i)] = "v"
			}
			return m
		}},
		{"bytes", func(n int) interface{} {
			b := make([]byte, n)
			for i := range b {
				b[i] = byte(i)
			}
			return b
		}},
		{"string", func(n int) interface{} {
			b := make([]byte, n)
			for i := range b {
				b[i] = 'a' + byte(i%26)
			}
			return string(b)
		}},
	}
}

var classVals = []func(v int32) interface{}{
	func(v int32) interface{} { return zoo.C1{V: v} }, func(v int32) interface{} { return zoo.C2{V: v} }, func(v int32) interface{} { return zoo.C3{V: v} },
	func(v int32) interface{} { return zoo.C4{V: v} }, func(v int32) interface{} { return zoo.C5{V: v} }, func(v int32) interface{} { return zoo.C6{V: v} },
	func(v int32) interface{} { return zoo.C7{V: v} }, func(v int32) interface{} { return zoo.C8{V: v} }, func(v int32) interface{} { return zoo.C9{V: v} },
	func(v int32) interface{} { return zoo.C10{V: v} }, func(v int32) interface{} { return zoo.C11{V: v} }, func(v int32) interface{} { return zoo.C12{V: v} },
	func(v int32) interface{} { return zoo.C13{V: v} }, func(v int32) interface{} { return zoo.C14{V: v} }, func(v int32) interface{} { return zoo.C15{V: v} },
	func(v int32) interface{} { return zoo.C16{V: v} }, func(v int32) interface{} { return zoo.C17{V: v} }, func(v int32) interface{} { return zoo.C18{V: v} },
	func(v int32) interface{} { return zoo.C19{V: v} }, func(v int32) interface{} { return zoo.C20{V: v} },
}

// classCountCases: lists with n distinct classes, each instantiated once or twice, in three orders.
func classCountCases(fn func(desc string, v interface{})) {
	for n := 1; n <= 20; n++ {
		for variant := 0; variant < 3; variant++ {
			var l []interface{}
			for i := 0; i < n; i++ {
				l = append(l, classVals[i](int32(i+1)))
			}
			switch variant {
			case 1: // every class a second time, same order
				for i := 0; i < n; i++ {
					l = append(l, classVals[i](int32(100+i)))
				}
			case 2: // second instances in reverse order
				for i := n - 1; i >= 0; i-- {
					l = append(l, classVals[i](int32(200+i)))
				}
			}
			fn(fmt.Sprintf("classes n=%d variant=%d ([]interface{} of C1..C%d instances)", n, variant, n), l)
		}
	}
}

func init() {
	core.Register(&core.Prop{
		ID: "C01", Level: "model_checking",
		Rule: "Exhaustive enumeration (prefix-replay DFS of the choice explorer) of every value of each zoo type with at most k positions deviating from their default, every container length 0..600 for 15 container positions, every class count 1..20, and a family of large messages around structural thresholds (list/map sizes 2^8, 2^10, 2^12, 2^13, 2^16 (+-1 in thorough), 12000+ non-empty maps, reference ordinals beyond 2^18, nine-octet values at every byte offset around 4096/8192/16384/65536, every scalar kind at every offset around the 4096 and 8192 buffer boundaries); each case is one real ToBytes/ToObject round trip compared with the R2 denotation. A case is non-trivial when at least one position deviates; distinctness is by hash of the case description (lengths/class cases are distinct by construction).",
		Assumptions: []string{
			"a top-level struct and a pointer to it are identified (the decoder returns *T)",
			"elements of untyped containers are compared in their canonical wire types",
			"field contents come from per-kind domains of 5-18 values; at most k positions deviate at once (k per unit name)",
			"type and name map come from ExtractTypeNameMap of the value itself",
		},
		MinOutcomes: 1,
		Units: func(tier string) []core.Unit {
			var us []core.Unit
			for i := range zoo.Types {
				t := &zoo.Types[i]
				k := 2
				if t.Small {
					k = 3
				}
				if tier == "thorough" && zooSlots(t) <= 7 {
					k++ // one more deviation where the value has few slots (the space grows as slots^k)
				}
				if t.Name == "Scalars" || t.Name == "Many" {
					k-- // many slots: the bound is one lower
				}
				kk := k
				us = append(us, core.Unit{Name: fmt.Sprintf("gen:%s:k%d", t.Name, kk), Cost: 10 * kk, Run: func(c *core.Ctx) {
					ForEachZoo(c, t, kk, false, func(zc *ZooCase) {
						out := roundTrip(c, zc.Val, zc.Desc, t.Name, zc.Choices)
						c.Outcome(out)
						c.Cover("type:" + t.Name)
						if zc.Devs > 0 && c.WantSample() && c.Index()%7 == 3 {
							c.Sample(zc.Desc + " -> " + out)
						}
					})
				}})
			}
			for _, lc := range lengthCases() {
				lc := lc
				us = append(us, core.Unit{Name: "len:" + lc.name, Cost: 50, Run: func(c *core.Ctx) {
					maxLen := 600
					if lc.name == "bytes" || lc.name == "string" {
						maxLen = 1100
					}
					for n := 0; n <= maxLen; n++ {
						if !c.Begin() {
							continue
						}
						c.NontrivialN(1)
						c.Res.States++
						c.Res.Transitions++
						desc := fmt.Sprintf("%s length=%d", lc.name, n)
						out := roundTrip(c, lc.mk(n), desc, "len:"+lc.name, nil)
						c.Outcome(out)
						if n == 257 {
							c.Sample(desc + " -> " + out)
						}
					}
					c.Cover("lengths:" + lc.name)
				}})
			}
			us = append(us, core.Unit{Name: "large", Cost: 120, Run: func(c *core.Ctx) {
				for _, lc := range largeCases(tier) {
					if !c.Begin() {
						continue
					}
					c.NontrivialN(1)
					c.Res.States++
					c.Res.Transitions++
					c.Outcome(roundTrip(c, lc.mk(), lc.desc, "large", nil))
				}
				c.Cover("large")
			}})
			us = append(us, core.Unit{Name: "classes", Cost: 5, Run: func(c *core.Ctx) {
				classCountCases(func(desc string, v interface{}) {
					if !c.Begin() {
						return
					}
					c.NontrivialN(1)
					c.Res.States++
					c.Res.Transitions++
					l := v.([]interface{})
					tm, nm := unionMaps(append([]interface{}{v}, l...)...)
					c.Outcome(roundTripMaps(c, v, desc, "classes", nil, tm, nm))
				})
				for n := 1; n <= 20; n++ {
					if !c.Begin() {
						continue
					}
					c.NontrivialN(1)
					// struct Many with the first n class fields non-default
					m := &zoo.Many{}
					rv := reflect.ValueOf(m).Elem()
					for i := 0; i < n; i++ {
						rv.Field(i).Field(0).SetInt(int64(i + 1))
					}
					m.L = []zoo.C3{{V: 3}, {V: 33}}
					m.M = []zoo.C17{{V: 17}}
					c.Outcome(roundTrip(c, m, fmt.Sprintf("Many with %d populated class fields", n), "classes", nil))
				}
				c.Cover("classes")
			}})
			return us
		},
		RequireCover: func(string) []string {
			var l []string
			for _, t := range zoo.Types {
				l = append(l, "type:"+t.Name)
			}
			return append(l, "classes", "large", "lengths:top[]int32", "lengths:fieldmap[string]int32")
		},
	})
}
