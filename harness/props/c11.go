package props

import (
	"bytes"
	"fmt"
	"reflect"
	"regexp"
	"strings"
	"time"

	hessian "github.com/vogo/gohessian"

	"verif/harness/core"
	"verif/harness/guard"
	rh "verif/harness/refhessian"
	"verif/harness/zoo"
)

type R11 struct {
	A int32
	S string
	L []int32
}
type R11b struct {
	In R11
	P  *R11
	Q  *R11
}
type R11c struct {
	M map[string]int32
	L []int32
	T time.Time
}
type R11bad struct {
	A int32
	B string
	C chan int
}

// world holds the shared inputs of a C11 history (values, byte strings, maps) and their snapshots.
type world struct {
	vals   []interface{}
	vnames []string
	bins   [][]byte
	bnames []string
	tm     map[string]reflect.Type
	nm     map[string]string
	snapV  []string
	snapB  [][]byte
	snapTM map[string]reflect.Type
	snapNM map[string]string
}

func render(v interface{}) string {
	var s string
	if p := core.Catch(func() { s = zoo.NewDenoter(nil).Denote(v).String() }); p != "" {
		return fmt.Sprintf("<%T undenotable>", v)
	}
	return fmt.Sprintf("%T:%s", v, s)
}

func newWorld() *world {
	w := &world{}
	g := &R11{A: 1, S: "g", L: []int32{1, 2}}
	add := func(n string, v interface{}) { w.vals = append(w.vals, v); w.vnames = append(w.vnames, n) }
	add("int32", int32(300))
	add("R11", &R11{A: 5, S: "x", L: []int32{7}})
	add("R11b(shared ptr)", &R11b{In: R11{A: 2}, P: g, Q: g})
	add("g(*R11)", g)
	add("[]int32", []int32{1, 2, 3})
	add("[]string", []string{"a", "b"})
	add("long string", strings.Repeat("s", 2100))
	add("Inner", zoo.Inner{A: 3, S: "in"})
	add("float64 1.5", 1.5)
	add("float64 0.001", 0.001)
	add("CustomNamed", &zoo.CustomNamed{K: "k", V: 7})
	add("Many3 (three classes)", &zoo.Many3{F1: zoo.C1{V: 1}, L: []zoo.C2{{V: 2}}, End: 3})
	add("empty []int32", []int32{})
	add("nil map + empty slice in a struct", &R11c{})
	add("unencodable(chan in 3rd field)", &R11bad{A: 1, B: "b", C: make(chan int)})
	w.tm, w.nm = unionMaps(w.vals...)
	// byte strings: the library's own renderings plus reference renderings that only resolve against stale tables
	addB := func(n string, b []byte) { w.bins = append(w.bins, b); w.bnames = append(w.bnames, n) }
	for i := 0; i < len(w.vals)-1; i++ {
		b, err := hessian.ToBytes(w.vals[i], copyNameMap(w.nm))
		if err != nil {
			panic(err)
		}
		addB("bytes of "+w.vnames[i], b)
	}
	// two typed lists, the second names its type by back-reference
	l1 := &rh.Value{K: rh.List, Typed: true, Type: w.nm["[]int32"], Elems: []*rh.Value{rh.IntV(1)}}
	l2 := &rh.Value{K: rh.List, Typed: true, Type: w.nm["[]int32"], Elems: []*rh.Value{rh.IntV(2)}}
	e := rh.NewEncoder(fixedPick{map[string]int{"type-backref": 1}})
	e.Top(&rh.Value{K: rh.List, Elems: []*rh.Value{l1, l2}})
	addB("list of two typed lists (type back-reference)", e.Out)
	addB("stale: typed list with type back-reference #0 and no type in this message", []byte{0x71, 0x90, 0x91})
	addB("stale: instance of class #0 with no definition in this message", []byte{0x60, 0x91, 0x01, 'x', 0x70, 0x90})
	addB("stale: reference #0 with no container in this message", []byte{0x51, 0x90})
	addB("stale: long-form instance of class #1", []byte{'O', 0x91, 0x91})
	full := w.bins[1]
	addB("garbage: truncated struct (half)", full[:len(full)/2])
	addB("garbage: truncated struct (all but last byte)", full[:len(full)-1])
	addB("garbage: unknown tag", []byte{0x45, 0x01, 0x02})
	addB("garbage: class definition then end", full[:12])
	addB("empty input", []byte{})
	addB("binary in two chunks, the first with the legacy tag 'b'", []byte{'b', 0x00, 0x02, 1, 2, 'B', 0x00, 0x01, 3})
	addB("binary in two chunks, the first with tag 0x41", []byte{0x41, 0x00, 0x02, 1, 2, 0x21, 3})
	// a class definition with a field the Go type lacks: its value (an instance of an unknown class) is skipped
	unk := &rh.Class{Name: "com.example.Unknown11", Fields: []string{"q"}}
	r11 := &rh.Class{Name: w.nm["R11"], Fields: []string{"a", "zzExtra", "s", "l"}}
	ext := &rh.Value{K: rh.Object, Class: r11, Elems: []*rh.Value{rh.IntV(5), {K: rh.Object, Class: unk, Elems: []*rh.Value{rh.IntV(1)}}, rh.StringV("x"), rh.NullV()}}
	withExtra := rh.Encode(ext)
	addB("struct with an unknown field holding an unknown-class object", withExtra)
	addB("garbage: the same, truncated inside the unknown field", withExtra[:len(withExtra)-6])
	for _, uv := range []struct {
		n string
		v *rh.Value
	}{
		{"a typed map of an unregistered type", &rh.Value{K: rh.Map, Typed: true, Type: "com.acme.Unknown", Elems: []*rh.Value{rh.StringV("k"), rh.IntV(1)}}},
		{"a typed list of an unregistered type", &rh.Value{K: rh.List, Typed: true, Type: "[com.acme.Unknown", Elems: []*rh.Value{rh.IntV(1)}}},
	} {
		ext2 := &rh.Value{K: rh.Object, Class: r11, Elems: []*rh.Value{rh.IntV(5), uv.v, rh.StringV("x"), rh.NullV()}}
		addB("struct with an unknown field holding "+uv.n, rh.Encode(ext2))
	}
	addB("stale: typed map of an unregistered type at top level", []byte{'M', 0x10, 'c', 'o', 'm', '.', 'a', 'c', 'm', 'e', '.', 'U', 'n', 'k', 'n', 'o', 'w', 'n', 0x01, 'k', 0x91, 'Z'})
	addB("stale: typed list of an unregistered type at top level", []byte{0x71, 0x08, '[', 'n', 'o', 's', 'u', 'c', 'h', 'T', 0x91})
	addB("stale: instance of an unregistered class at top level", append([]byte{'C', 0x07, 'N', 'o', 'S', 'u', 'c', 'h', 'T', 0x91, 0x01, 'q', 0x60}, 0x91))
	for _, v := range w.vals {
		w.snapV = append(w.snapV, render(v))
	}
	for _, b := range w.bins {
		w.snapB = append(w.snapB, append([]byte{}, b...))
	}
	w.snapTM, w.snapNM = copyTypeMap(w.tm), copyNameMap(w.nm)
	return w
}

// unchanged checks the no-side-effect clause.
func (w *world) unchanged() string {
	for i, v := range w.vals {
		if r := render(v); r != w.snapV[i] {
			return "the value being encoded was modified: " + w.vnames[i]
		}
	}
	for i, b := range w.bins {
		if !bytes.Equal(b, w.snapB[i]) {
			return "the bytes being decoded were modified: " + w.bnames[i]
		}
	}
	if len(w.tm) != len(w.snapTM) {
		return "the caller's type map was modified"
	}
	for k, v := range w.snapTM {
		if w.tm[k] != v {
			return "the caller's type map was modified"
		}
	}
	if len(w.nm) != len(w.snapNM) {
		return "the caller's name map was modified"
	}
	for k, v := range w.snapNM {
		if w.nm[k] != v {
			return "the caller's name map was modified"
		}
	}
	return ""
}

// instance under test
type inst11 struct {
	kind    int // 0 encoder, 1 decoder, 2 serializer
	enc     *hessian.Encoder
	dec     *hessian.Decoder
	ser     hessian.Serializer
	w       *world
	sw      *guard.Writer // streaming destination
	sr      *guard.Reader
	results [][]byte // byte slices handed back by earlier encodes
	copies  [][]byte
}

func newInst(kind int, w *world) *inst11 {
	in := &inst11{kind: kind, w: w}
	switch kind {
	case 0:
		in.enc = hessian.NewEncoder(nil, w.nm)
	case 1:
		in.dec = hessian.NewDecoder(nil, w.tm)
	case 2:
		in.ser = hessian.NewSerializer(w.tm, w.nm)
		in.enc, in.dec = hessian.VerifSerializerParts(in.ser)
	}
	return in
}

type op11 struct {
	name    string
	oneShot bool
	run     func(in *inst11) string
}

var rePointer = regexp.MustCompile(`0x[0-9a-f]{8,}`)

// exactErr keeps an error message as it is except for printed addresses: a reused instance has to report
// what a fresh one reports, text included.
func exactErr(s string) string { return rePointer.ReplaceAllString(s, "0xP") }

func encRes(b []byte, err error, p string) string {
	switch {
	case p != "":
		return "PANIC " + msgStrict(p)
	case err != nil:
		return "ERR " + exactErr(err.Error())
	}
	return fmt.Sprintf("%x", b)
}

func decRes(v interface{}, err error, p string) string {
	switch {
	case p != "":
		return "PANIC " + msgStrict(p)
	case err != nil:
		return "ERR " + exactErr(err.Error())
	}
	return render(v)
}

func ops11(kind int, w *world) []op11 {
	var ops []op11
	if kind == 0 || kind == 2 {
		for i := range w.vals {
			i := i
			ops = append(ops, op11{"one-shot encode " + w.vnames[i], true, func(in *inst11) string {
				var b []byte
				var err error
				p := core.Catch(func() {
					if in.kind == 0 {
						b, err = in.enc.Encode(w.vals[i])
					} else {
						b, err = in.ser.ToBytes(w.vals[i])
					}
				})
				if p == "" && err == nil {
					in.results = append(in.results, b)
					in.copies = append(in.copies, append([]byte{}, b...))
				}
				return encRes(b, err, p)
			}})
		}
		for _, vi := range []int{1, 2} {
			vi := vi
			ops = append(ops, op11{"WriteTo(fresh buffer) " + w.vnames[vi], true, func(in *inst11) string {
				gw := guard.NewWriter()
				var err error
				p := core.Catch(func() {
					if in.kind == 0 {
						err = in.enc.WriteTo(gw, w.vals[vi])
					} else {
						err = in.ser.WriteTo(gw, w.vals[vi])
					}
				})
				in.sw = gw
				return encRes(gw.Buf, err, p)
			}})
			for _, k := range []int{0, 1, 3} {
				k := k
				ops = append(ops, op11{fmt.Sprintf("WriteTo(writer failing at Write #%d) %s", k, w.vnames[vi]), true, func(in *inst11) string {
					gw := guard.NewWriter()
					gw.FaultAt, gw.Kind = k, guard.FaultSticky
					var err error
					p := core.Catch(func() {
						if in.kind == 0 {
							err = in.enc.WriteTo(gw, w.vals[vi])
						} else {
							err = in.ser.WriteTo(gw, w.vals[vi])
						}
					})
					in.sw = nil
					return encRes(nil, err, p)
				}})
			}
		}
		for _, vi := range []int{1, 3} {
			vi := vi
			ops = append(ops, op11{"streaming write " + w.vnames[vi], false, func(in *inst11) string {
				if in.sw == nil {
					in.sw = guard.NewWriter()
					if in.kind == 0 {
						in.enc.Reset(in.sw)
					} else {
						return "skipped (no stream open)"
					}
				}
				var err error
				p := core.Catch(func() {
					if in.kind == 0 {
						err = in.enc.WriteObject(w.vals[vi])
					} else {
						err = in.ser.Write(w.vals[vi])
					}
				})
				return encRes(nil, err, p)
			}})
		}
		if kind == 0 {
			ops = append(ops, op11{"Reset(new writer)", false, func(in *inst11) string {
				in.sw = guard.NewWriter()
				in.enc.Reset(in.sw)
				return "reset"
			}})
		}
	}
	if kind == 1 || kind == 2 {
		for i := range w.bins {
			i := i
			ops = append(ops, op11{"one-shot decode " + w.bnames[i], true, func(in *inst11) string {
				var v interface{}
				var err error
				p := core.Catch(func() {
					if in.kind == 1 {
						v, err = in.dec.Decode(w.bins[i])
					} else {
						v, err = in.ser.ToObject(w.bins[i])
					}
				})
				return decRes(v, err, p)
			}})
		}
		for _, bi := range []int{1, 2, len(w.vals) - 1} {
			bi := bi
			ops = append(ops, op11{"ReadFrom(reader) " + w.bnames[bi], true, func(in *inst11) string {
				in.sr = guard.NewReader(w.bins[bi])
				var v interface{}
				var err error
				p := core.Catch(func() {
					if in.kind == 1 {
						v, err = in.dec.ReadFrom(in.sr)
					} else {
						v, err = in.ser.ReadFrom(in.sr)
					}
				})
				return decRes(v, err, p)
			}})
		}
		for _, bi := range []int{1, 4} {
			bi := bi
			ops = append(ops, op11{"ReadFrom(the reader object of the previous ReadFrom, refilled) " + w.bnames[bi], true, func(in *inst11) string {
				if in.sr == nil {
					in.sr = guard.NewReader(nil)
				}
				in.sr.Data, in.sr.Pos, in.sr.Calls = w.bins[bi], 0, 0
				var v interface{}
				var err error
				p := core.Catch(func() {
					if in.kind == 1 {
						v, err = in.dec.ReadFrom(in.sr)
					} else {
						v, err = in.ser.ReadFrom(in.sr)
					}
				})
				return decRes(v, err, p)
			}})
		}
		ops = append(ops, op11{"streaming read (next value of the open stream)", false, func(in *inst11) string {
			if in.sr == nil {
				return "skipped (no stream open)"
			}
			// feed another value so that there is something to read
			in.sr.Data = append(append([]byte{}, in.sr.Data...), w.bins[4]...)
			var v interface{}
			var err error
			p := core.Catch(func() {
				if in.kind == 1 {
					v, err = in.dec.ReadObject()
				} else {
					v, err = in.ser.Read()
				}
			})
			return decRes(v, err, p)
		}})
		if kind == 1 {
			ops = append(ops, op11{"Reset(new reader)", false, func(in *inst11) string {
				in.sr = guard.NewReader(w.bins[2])
				in.dec.Reset(in.sr)
				return "reset"
			}})
		}
	}
	return ops
}

func (in *inst11) key() string {
	var sb strings.Builder
	if in.enc != nil {
		cls, kinds, nml := hessian.VerifEncoderState(in.enc)
		cnt, by := hessian.VerifEncoderRefs(in.enc)
		fmt.Fprintf(&sb, "E%v%v#%d/%d nm%d sw=%v", cls, kinds, cnt, len(by), nml, in.sw != nil)
	}
	if in.dec != nil {
		ty, dc, rk, tml := hessian.VerifDecoderState(in.dec)
		pos := -1
		if in.sr != nil {
			pos = in.sr.Pos
		}
		fmt.Fprintf(&sb, "D%v%v%v tm%d sr=%d", ty, dc, rk, tml, pos)
	}
	return sb.String()
}

var kind11Names = []string{"Encoder", "Decoder", "Serializer"}

func init() {
	core.Register(&core.Prop{
		ID: "C11", Level: "model_checking",
		Rule:        "Explicit-state breadth-first search over histories of operations on one Encoder, one Decoder and one Serializer: one-shot encodes of 9 values (incl. shared-pointer graphs, typed lists, a long string, an unencodable value that fails half-way), WriteTo with a writer failing at Write #1 / #3, one-shot decodes of 18 byte strings (the library's own renderings, a reference rendering with a type back-reference, inputs that only resolve against stale type/class/reference tables, truncated and unknown-tag garbage, empty input), ReadFrom, streaming writes and reads, Reset. Successor = replay on a fresh instance + one operation; states deduplicated by the instance's private fields (verif hooks); searched to depth 4 (quick) / 5 (thorough) and, for the one-shot sub-alphabet, to a fixpoint. Oracle: every one-shot operation in every history returns exactly what it returns on a freshly constructed instance (bytes, denoted value and type, normalised error or panic); byte slices returned earlier are unchanged; after every operation the values, input bytes and the caller's complete name and type maps are unchanged. Non-trivial = history of length >= 2; distinct = distinct (state, operation) pairs.",
		Assumptions: []string{"maps in inputs have at most one entry (Go map order would make bytes incomparable)", "state key = private tables of the instance; equal keys are assumed to have equal futures"},
		Units: func(tier string) []core.Unit {
			depth := tierPick(tier, 4, 5)
			var us []core.Unit
			for kind := 0; kind < 3; kind++ {
				kind := kind
				nops := len(ops11(kind, newWorld()))
				for first := 0; first < nops; first++ {
					first := first
					us = append(us, core.Unit{Name: fmt.Sprintf("bfs:%s:first=%d", kind11Names[kind], first), Cost: 10, Run: func(c *core.Ctx) {
						w0 := newWorld()
						ops0 := ops11(kind, w0)
						// baseline: each one-shot op on a fresh instance
						fresh := make([]string, len(ops0))
						for i, op := range ops0 {
							if op.oneShot {
								ww := newWorld()
								fresh[i] = ops11(kind, ww)[i].run(newInst(kind, ww))
							}
						}
						run := func(h []int, report bool) (*inst11, bool) {
							ww := newWorld()
							in := newInst(kind, ww)
							ops := ops11(kind, ww)
							for step, oi := range h {
								res := ops[oi].run(in)
								bad := ""
								if ops[oi].oneShot && res != fresh[oi] {
									bad = fmt.Sprintf("one-shot result differs from a fresh instance's after %d earlier operations", step)
									if step == 0 {
										bad = "one-shot result is not deterministic (two fresh instances disagree)"
									}
								} else if u := ww.unchanged(); u != "" {
									bad = u
								} else {
									for ri := range in.results {
										if !bytes.Equal(in.results[ri], in.copies[ri]) {
											bad = "bytes returned by an earlier encode were overwritten by a later call"
										}
									}
								}
								if bad != "" {
									if report {
										var names []string
										for _, x := range h[:step+1] {
											names = append(names, ops[x].name)
										}
										kindOfOp := "encode"
										if strings.Contains(ops[oi].name, "decode") || strings.Contains(ops[oi].name, "Read") || strings.Contains(ops[oi].name, "read") {
											kindOfOp = "decode"
										}
										c.Report(&core.Violation{Stage: kindOfOp, Kind: "differs-from-fresh", Shape: kind11Names[kind], Message: bad, Case: kind11Names[kind] + ": " + strings.Join(names, " ; "),
											Detail: fmt.Sprintf("got   %s\nfresh %s", trunc200(res), trunc200(fresh[oi])), Choices: h})
									}
									return in, false
								}
							}
							return in, true
						}
						seen := map[string]bool{}
						frontier := [][]int{{first}}
						if !c.Begin() {
							return
						}
						in, ok := run(frontier[0], true)
						if !ok {
							return
						}
						seen[in.key()] = true
						c.Cover("op:" + kind11Names[kind])
						for d := 1; d < depth && len(frontier) > 0; d++ {
							var next [][]int
							for _, h := range frontier {
								for oi := range ops0 {
									if !c.Begin() {
										continue
									}
									nh := append(append([]int{}, h...), oi)
									c.Res.Transitions++
									c.NontrivialN(1)
									in, ok := run(nh, true)
									if !ok {
										continue
									}
									c.Outcome(fmt.Sprintf("equal-to-fresh-depth-%d", len(nh)))
									if k := in.key(); !seen[k] {
										seen[k] = true
										next = append(next, nh)
									}
									if c.WantSample() && len(nh) == 3 && c.Index()%23 == 7 {
										c.Sample(kind11Names[kind] + ": " + ops0[nh[0]].name + " ; " + ops0[nh[1]].name + " ; " + ops0[nh[2]].name)
									}
								}
							}
							frontier = next
						}
						if len(frontier) == 0 {
							c.Res.Extra["units_closed_at_fixpoint"]++
						}
						c.Res.States += int64(len(seen))
					}})
				}
				// long periodic histories
				us = append(us, core.Unit{Name: "long:" + kind11Names[kind], Cost: 30, Run: func(c *core.Ctx) {
					w0 := newWorld()
					ops0 := ops11(kind, w0)
					fresh := make([]string, len(ops0))
					for i, op := range ops0 {
						if op.oneShot {
							ww := newWorld()
							fresh[i] = ops11(kind, ww)[i].run(newInst(kind, ww))
						}
					}
					for a := range ops0 {
						for b := range ops0 {
							if !c.Begin() {
								continue
							}
							c.NontrivialN(1)
							ww := newWorld()
							in := newInst(kind, ww)
							ops := ops11(kind, ww)
							for i := 0; i < 30; i++ {
								oi := a
								if i%2 == 1 {
									oi = b
								}
								res := ops[oi].run(in)
								c.Res.Transitions++
								if ops[oi].oneShot && res != fresh[oi] {
									c.Report(&core.Violation{Stage: "long", Kind: "differs-from-fresh", Shape: kind11Names[kind], Message: "one-shot result differs from a fresh instance's in a periodic 30-step history",
										Case: fmt.Sprintf("%s: (%s ; %s)^15, step %d", kind11Names[kind], ops[a].name, ops[b].name, i+1), Detail: fmt.Sprintf("got   %s\nfresh %s", trunc200(res), trunc200(fresh[oi]))})
									break
								}
							}
							if u := ww.unchanged(); u != "" {
								c.Report(&core.Violation{Stage: "long", Kind: "side-effect", Shape: kind11Names[kind], Message: u, Case: fmt.Sprintf("(%s ; %s)^15", ops[a].name, ops[b].name)})
							}
							c.Res.States++
						}
					}
					c.Outcome("long-ok")
					c.Cover("long:" + kind11Names[kind])
				}})
				// one operation repeated far beyond every counter width, probed with every one-shot operation
				for shard := 0; shard < 4; shard++ {
					shard := shard
					us = append(us, core.Unit{Name: fmt.Sprintf("very-long:%s:%d", kind11Names[kind], shard), Cost: 40, Run: func(c *core.Ctx) {
						w0 := newWorld()
						ops0 := ops11(kind, w0)
						fresh := make([]string, len(ops0))
						for i, op := range ops0 {
							if op.oneShot {
								ww := newWorld()
								fresh[i] = ops11(kind, ww)[i].run(newInst(kind, ww))
							}
						}
						n := tierPick(tier, 66000, 140000)
						probesAt := map[int]bool{255: true, 256: true, 257: true, 4096: true, 32768: true, 65535: true, 65536: true, 65537: true, 131072: true}
						for a, opa := range ops0 {
							if !opa.oneShot || len(fresh[a]) > 400 || strings.Contains(opa.name, "long string") || a%4 != shard {
								continue
							}
							if !c.Begin() {
								continue
							}
							c.NontrivialN(1)
							ww := newWorld()
							in := newInst(kind, ww)
							ops := ops11(kind, ww)
							bad := ""
							for i := 1; i <= n && bad == ""; i++ {
								in.results, in.copies = in.results[:0], in.copies[:0]
								if res := ops[a].run(in); res != fresh[a] {
									bad = fmt.Sprintf("call #%d of %q differs from a fresh instance's result", i, ops[a].name)
								}
								c.Res.Transitions++
								if probesAt[i] {
									for b := range ops {
										if ops[b].oneShot {
											if res := ops[b].run(in); res != fresh[b] && bad == "" {
												bad = fmt.Sprintf("after %d calls of %q, %q differs from a fresh instance's result", i, ops[a].name, ops[b].name)
											}
										}
									}
								}
							}
							if bad == "" {
								bad = ww.unchanged()
							}
							if bad != "" {
								c.Report(&core.Violation{Stage: "very-long", Kind: "differs-from-fresh", Shape: kind11Names[kind], Message: msgClass(bad), Case: fmt.Sprintf("%s: %q x %d with probes", kind11Names[kind], opa.name, n)})
							}
							c.Res.States++
						}
						// the same operation X exactly d calls apart with only filler calls in between, for d around
						// every counter width (a per-call counter that wraps makes call d look like call 0)
						var fillers []int
						for a, opa := range ops0 {
							if opa.oneShot && len(fillers) < 3 && (strings.HasSuffix(opa.name, "int32") || strings.HasSuffix(opa.name, " R11") || strings.HasSuffix(opa.name, "[]int32")) {
								fillers = append(fillers, a)
							}
						}
						for _, a := range fillers {
							for x := range ops0 {
								if !ops0[x].oneShot || x == a || strings.Contains(ops0[x].name, "long string") || x%4 != shard {
									continue
								}
								for _, d := range []int{255, 256, 257, 65535, 65536, 65537} {
									if tier != "thorough" && d != 256 && d != 65536 {
										continue
									}
									if !c.Begin() {
										continue
									}
									c.NontrivialN(1)
									ww := newWorld()
									in := newInst(kind, ww)
									ops := ops11(kind, ww)
									bad := ""
									if res := ops[x].run(in); res != fresh[x] {
										bad = "first call differs from a fresh instance's result"
									}
									for i := 1; i < d && bad == ""; i++ {
										in.results, in.copies = in.results[:0], in.copies[:0]
										if res := ops[a].run(in); res != fresh[a] {
											bad = fmt.Sprintf("filler call #%d differs from a fresh instance's result", i)
										}
									}
									c.Res.Transitions += int64(d)
									if bad == "" {
										if res := ops[x].run(in); res != fresh[x] {
											bad = "the second call differs from a fresh instance's result"
										}
									}
									if bad != "" {
										c.Report(&core.Violation{Stage: "very-long", Kind: "differs-from-fresh", Shape: kind11Names[kind], Message: msgClass(bad),
											Case: fmt.Sprintf("%s: %q ; %q x %d ; %q", kind11Names[kind], ops0[x].name, ops0[a].name, d-1, ops0[x].name)})
									}
									c.Res.States++
								}
							}
						}
						c.Outcome("very-long-ok")
						c.Cover("very-long:" + kind11Names[kind])
					}})
				}
			}
			return us
		},
		RequireCover: func(string) []string {
			return []string{"very-long:Encoder", "very-long:Decoder", "op:Encoder", "op:Decoder", "op:Serializer", "long:Encoder", "long:Decoder", "long:Serializer"}
		},
	})
}

func trunc200(s string) string {
	if len(s) > 200 {
		return s[:200] + "…"
	}
	return s
}
