package props

import (
	"fmt"
	"reflect"
	"runtime"
	"sort"
	"strings"
	"time"

	hessian "github.com/vogo/gohessian"
	"verif/harness/guard"

	"verif/harness/core"
	rh "verif/harness/refhessian"
	"verif/harness/zoo"
)

// graph node types: a filler field sits in front of (or between) the pointer slots
type G0 struct {
	Id   int32
	A, B *G0
}
type GMap struct {
	Id   int32
	F    map[string]int32
	A, B *GMap
}
type GTime struct {
	Id   int32
	F    time.Time
	A, B *GTime
}
type GStr struct {
	Id   int32
	F    string
	A, B *GStr
}
type GBin struct {
	Id   int32
	F    []byte
	A, B *GBin
}
type GSl struct {
	Id   int32
	F    []int32
	A, B *GSl
}
type GPtr struct {
	Id   int32
	F    *zoo.Inner
	A, B *GPtr
}
type GVal struct {
	Id   int32
	F    zoo.Inner
	A, B *GVal
}
type GHead struct {
	F    zoo.Inner // a by-value struct as the first field: same address as the node itself
	Id   int32
	A, B *GHead
}
type GLeaf struct {
	Id   int32
	F    *zoo.Inner // leaf object without links, possibly shared by several nodes
	G    *zoo.Inner
	A, B *GLeaf
}
type GMid struct {
	Id int32
	A  *GMid
	F  map[string]int32
	T  time.Time
	S  []int32
	B  *GMid
}
type GLM struct {
	Id int32
	L  []*GLM
	L2 []*GLM
	M  map[string]*GLM
	M2 map[string]*GLM
	A  *GLM
}

// sharedLeaf is re-created for every graph (see buildGraph).
var sharedLeaf *zoo.Inner

type filler struct {
	name string
	typ  reflect.Type
	set  func(node reflect.Value, i int)
}

func fillers() []filler {
	setF := func(v interface{}) func(reflect.Value, int) {
		return func(n reflect.Value, i int) {
			if v != nil {
				n.Elem().FieldByName("F").Set(reflect.ValueOf(v))
			}
		}
	}
	return []filler{
		{"none", reflect.TypeOf(G0{}), func(reflect.Value, int) {}},
		{"nil map", reflect.TypeOf(GMap{}), setF(nil)},
		{"empty map", reflect.TypeOf(GMap{}), func(n reflect.Value, i int) { n.Elem().FieldByName("F").Set(reflect.ValueOf(map[string]int32{})) }},
		{"non-empty map", reflect.TypeOf(GMap{}), func(n reflect.Value, i int) {
			n.Elem().FieldByName("F").Set(reflect.ValueOf(map[string]int32{"k": int32(i)}))
		}},
		{"zero time", reflect.TypeOf(GTime{}), setF(nil)},
		{"non-zero time", reflect.TypeOf(GTime{}), setF(zoo.RefTime)},
		{"empty string", reflect.TypeOf(GStr{}), setF(nil)},
		{"string", reflect.TypeOf(GStr{}), setF("s")},
		{"nil []byte", reflect.TypeOf(GBin{}), setF(nil)},
		{"[]byte{1}", reflect.TypeOf(GBin{}), func(n reflect.Value, i int) { n.Elem().FieldByName("F").Set(reflect.ValueOf([]byte{1})) }},
		{"nil []int32", reflect.TypeOf(GSl{}), setF(nil)},
		{"empty []int32", reflect.TypeOf(GSl{}), func(n reflect.Value, i int) { n.Elem().FieldByName("F").Set(reflect.ValueOf([]int32{})) }},
		{"[]int32{1}", reflect.TypeOf(GSl{}), func(n reflect.Value, i int) { n.Elem().FieldByName("F").Set(reflect.ValueOf([]int32{1})) }},
		{"nil *Inner", reflect.TypeOf(GPtr{}), setF(nil)},
		{"*Inner", reflect.TypeOf(GPtr{}), func(n reflect.Value, i int) {
			n.Elem().FieldByName("F").Set(reflect.ValueOf(&zoo.Inner{A: int32(i), S: "f"}))
		}},
		{"Inner by value", reflect.TypeOf(GVal{}), func(n reflect.Value, i int) {
			n.Elem().FieldByName("F").Set(reflect.ValueOf(zoo.Inner{A: int32(i), S: "v"}))
		}},
		{"by-value struct as first field", reflect.TypeOf(GHead{}), func(n reflect.Value, i int) {
			n.Elem().FieldByName("F").Set(reflect.ValueOf(zoo.Inner{A: int32(i), S: "h"}))
		}},
		{"one leaf object shared by all nodes", reflect.TypeOf(GLeaf{}), func(n reflect.Value, i int) {
			n.Elem().FieldByName("F").Set(reflect.ValueOf(sharedLeaf))
			if i%2 == 0 {
				n.Elem().FieldByName("G").Set(reflect.ValueOf(sharedLeaf))
			}
		}},
		{"mid: nil map, zero time, nil slice", reflect.TypeOf(GMid{}), func(reflect.Value, int) {}},
		{"mid: empty map, time, empty slice", reflect.TypeOf(GMid{}), func(n reflect.Value, i int) {
			n.Elem().FieldByName("F").Set(reflect.ValueOf(map[string]int32{}))
			n.Elem().FieldByName("T").Set(reflect.ValueOf(zoo.RefTime))
			n.Elem().FieldByName("S").Set(reflect.ValueOf([]int32{}))
		}},
		{"mid: map, whole-second time, slice", reflect.TypeOf(GMid{}), func(n reflect.Value, i int) {
			n.Elem().FieldByName("F").Set(reflect.ValueOf(map[string]int32{"k": 1}))
			n.Elem().FieldByName("T").Set(reflect.ValueOf(time.Unix(1000, 0)))
			n.Elem().FieldByName("S").Set(reflect.ValueOf([]int32{1, 2}))
		}},
	}
}

// canonicalGraphs enumerates every assignment of the 2n pointer slots over {nil, n0..n(n-1)} in which all
// nodes are reachable from n0 and nodes are numbered in BFS discovery order (A before B): one
// representative per isomorphism class of rooted, edge-labelled graphs.
func canonicalGraphs(n int, fn func(edges []int)) {
	edges := make([]int, 2*n) // edges[2i]=A of node i, edges[2i+1]=B; -1 = nil
	var rec func(slot int)
	rec = func(slot int) {
		if slot == 2*n {
			// BFS order check
			order := []int{0}
			seen := map[int]bool{0: true}
			for q := 0; q < len(order); q++ {
				for _, e := range []int{edges[2*order[q]], edges[2*order[q]+1]} {
					if e >= 0 && !seen[e] {
						seen[e] = true
						order = append(order, e)
					}
				}
			}
			if len(order) != n {
				return
			}
			for i, o := range order {
				if i != o {
					return
				}
			}
			fn(edges)
			return
		}
		for t := -1; t < n; t++ {
			edges[slot] = t
			rec(slot + 1)
		}
	}
	rec(0)
}

func buildGraph(f filler, n int, edges []int) (root interface{}, nodes []reflect.Value) {
	sharedLeaf = &zoo.Inner{A: 77, S: "leaf"}
	for i := 0; i < n; i++ {
		p := reflect.New(f.typ)
		p.Elem().FieldByName("Id").SetInt(int64(i + 1))
		f.set(p, i)
		nodes = append(nodes, p)
	}
	for i := 0; i < n; i++ {
		if e := edges[2*i]; e >= 0 {
			nodes[i].Elem().FieldByName("A").Set(nodes[e])
		}
		if e := edges[2*i+1]; e >= 0 {
			nodes[i].Elem().FieldByName("B").Set(nodes[e])
		}
	}
	return nodes[0].Interface(), nodes
}

// pairWalk checks that decoded is the same graph as orig with the same sharing: the pairing
// original pointer <-> decoded pointer must be a bijection.
func pairWalk(orig, dec reflect.Value) string {
	o2d := map[uintptr]uintptr{}
	d2o := map[uintptr]uintptr{}
	nm := map[string]string{}
	var walk func(o, d reflect.Value, path string) string
	walk = func(o, d reflect.Value, path string) string {
		if o.IsNil() || d.IsNil() {
			if o.IsNil() != d.IsNil() {
				return fmt.Sprintf("%s: nil in one graph only (orig nil=%v, decoded nil=%v)", path, o.IsNil(), d.IsNil())
			}
			return ""
		}
		op, dp := o.Pointer(), d.Pointer()
		if x, ok := o2d[op]; ok {
			if x != dp {
				return fmt.Sprintf("%s: an object shared in the original is duplicated in the decoded graph", path)
			}
			return ""
		}
		if _, ok := d2o[dp]; ok {
			return fmt.Sprintf("%s: two distinct original objects are one object in the decoded graph", path)
		}
		o2d[op], d2o[dp] = dp, op
		os, ds := o.Elem(), d.Elem()
		nodeT := o.Type()
		for i := 0; i < os.NumField(); i++ {
			fn := os.Type().Field(i).Name
			of, df := os.Field(i), ds.Field(i)
			switch {
			case of.Type() == nodeT:
				if r := walk(of, df, path+"."+fn); r != "" {
					return r
				}
			case of.Kind() == reflect.Slice && of.Type().Elem() == nodeT:
				if of.Len() != df.Len() {
					return fmt.Sprintf("%s.%s: slice length %d vs %d", path, fn, of.Len(), df.Len())
				}
				for j := 0; j < of.Len(); j++ {
					if r := walk(of.Index(j), df.Index(j), fmt.Sprintf("%s.%s[%d]", path, fn, j)); r != "" {
						return r
					}
				}
			case of.Kind() == reflect.Map && of.Type().Elem() == nodeT:
				if of.Len() != df.Len() {
					return fmt.Sprintf("%s.%s: map size %d vs %d", path, fn, of.Len(), df.Len())
				}
				keys := of.MapKeys()
				sort.Slice(keys, func(a, b int) bool { return keys[a].String() < keys[b].String() })
				for _, k := range keys {
					dv := df.MapIndex(k)
					if !dv.IsValid() {
						return fmt.Sprintf("%s.%s: key %v missing", path, fn, k)
					}
					if r := walk(of.MapIndex(k), dv, fmt.Sprintf("%s.%s{%v}", path, fn, k)); r != "" {
						return r
					}
				}
			default:
				a, b := zoo.NewDenoter(nm).Denote(of.Interface()), zoo.NewDenoter(nm).Denote(df.Interface())
				if r := zoo.Bisim(a, b, zoo.BisimOpts{NilEmpty: true, IgnoreTypes: true}); r != "" {
					return fmt.Sprintf("%s.%s: filler/scalar differs: %s", path, fn, r)
				}
			}
		}
		return ""
	}
	return walk(orig, dec, "$")
}

// PCG holds a map and a slice directly, behind a pointer, and directly again.
type PCG struct {
	M   map[string]*zoo.Inner
	PM  *map[string]*zoo.Inner
	M2  map[string]*zoo.Inner
	L   []*zoo.Inner
	PL  *[]*zoo.Inner
	L2  []*zoo.Inner
	End int32
}

// IntA, IntB, IntC hold interior pointers next to the whole value.
type IntA struct {
	First  *zoo.Base
	Whole  *zoo.Embedded
	Whole2 *zoo.Embedded
	First2 *zoo.Base
	End    int32
}
type IntB struct {
	L   []zoo.Inner
	P   *zoo.Inner
	L2  []zoo.Inner
	P2  *zoo.Inner
	End int32
}

// IntD / IntDP: sub-slices of one array (by-value elements / pointer elements; the two list types share a
// wire name and are therefore kept in separate values)
type IntD struct {
	E0  []zoo.Inner
	L   []zoo.Inner
	E1  []zoo.Inner
	L2  []zoo.Inner
	E2  []zoo.Inner
	End int32
}
type IntDP struct {
	PE0 []*zoo.Inner
	PL  []*zoo.Inner
	PE1 []*zoo.Inner
	PL2 []*zoo.Inner
	PE2 []*zoo.Inner
	End int32
}
type IntC struct {
	P   *zoo.Inner
	L   []zoo.Inner
	P2  *zoo.Inner
	L2  []zoo.Inner
	End int32
}

func graphCheck(c *core.Ctx, root interface{}, desc, shape string) string {
	out := graphCheckMaps(c, root, desc, shape, false)
	if out != "ok" {
		return out
	}
	// the same graph written without a name map: lists and maps are untyped on the wire and are
	// converted to the field types on the way in
	return graphCheckMaps(c, root, desc+" (encoded with a nil name map: untyped lists)", shape+" untyped", true)
}

func graphCheckMaps(c *core.Ctx, root interface{}, desc, shape string, nilNames bool) string {
	rep := func(stage, kind, msg, detail string) string {
		c.Report(&core.Violation{Stage: stage, Kind: kind, Shape: shape, Message: msgStrict(msg), Case: desc, Detail: detail})
		return stage + "/" + kind
	}
	tm, nm, p := Maps(root)
	if p != "" {
		return rep("maps", "panic", p, "")
	}
	if nilNames {
		nm = nil
	}
	enc := Encode(root, nm)
	if !enc.OK() {
		return rep("encode", "error", fmt.Sprint(enc.Err, enc.Panic), "")
	}
	// ordinals: every reference in the bytes must resolve (stream order) to the container standing for the same object
	parsed, err := rh.ParseOne(enc.Bytes)
	if err != nil {
		return rep("refparse", "malformed", "reference decoder rejects the bytes: "+err.Error(), hexs(enc.Bytes))
	}
	want := zoo.NewDenoter(nm).Denote(root)
	if d := zoo.Bisim(want, parsed, zoo.BisimOpts{NilEmpty: true, Pairing: map[*rh.Value]*rh.Value{}}); d != "" {
		if !(compactDatesAsSeconds(parsed, map[*rh.Value]bool{}) && zoo.Bisim(want, parsed, zoo.BisimOpts{NilEmpty: true, Pairing: map[*rh.Value]*rh.Value{}}) == "") {
			return rep("refparse", "ordinal", "encoder's references do not denote the original sharing: "+diffShape(d), d+" | "+hexs(enc.Bytes))
		}
	}
	dec := Decode(enc.Bytes, tm)
	if !dec.OK() {
		return rep("decode", "error", fmt.Sprint(dec.Err, dec.Panic, dec.Runaway), hexs(enc.Bytes))
	}
	dv := reflect.ValueOf(dec.Val)
	ov := reflect.ValueOf(root)
	if !dv.IsValid() || dv.Type() != ov.Type() {
		return rep("compare", "type", fmt.Sprintf("decoded %T, expected %T", dec.Val, root), "")
	}
	r := pairWalk(ov, dv)
	if r == "" {
		// pointers to objects of other types (leaf objects without links) must keep their sharing too
		cp := NewPairing()
		cp.Containers = true
		r = cp.Cmp(ov, dv, "$")
	}
	if r != "" {
		kind := "mismatch"
		msg := r
		if i := len("$"); i > 0 {
			// drop the concrete path from the signature
			for j := 0; j < len(r); j++ {
				if r[j] == ':' {
					msg = r[j+2:]
					break
				}
			}
		}
		return rep("compare", kind, msg, r+" | "+hexs(enc.Bytes))
	}
	return "ok"
}

func edgeDesc(n int, edges []int) string {
	s := ""
	name := func(e int) string {
		if e < 0 {
			return "nil"
		}
		return fmt.Sprint("n", e)
	}
	for i := 0; i < n; i++ {
		s += fmt.Sprintf("n%d{A:%s B:%s} ", i, name(edges[2*i]), name(edges[2*i+1]))
	}
	return s
}

// families of large graphs over G0
func bigFamilies(n int) []struct {
	name string
	root *G0
} {
	mk := func() []*G0 {
		l := make([]*G0, n)
		for i := range l {
			l[i] = &G0{Id: int32(i)}
		}
		return l
	}
	var out []struct {
		name string
		root *G0
	}
	// ring
	r := mk()
	for i := range r {
		r[i].A = r[(i+1)%n]
	}
	out = append(out, struct {
		name string
		root *G0
	}{"ring", r[0]})
	// doubly linked ring
	dr := mk()
	for i := range dr {
		dr[i].A = dr[(i+1)%n]
		dr[i].B = dr[(i+n-1)%n]
	}
	out = append(out, struct {
		name string
		root *G0
	}{"double-ring", dr[0]})
	// chain, last node points back to node k for k = n/2 and 0; B of every node points to the root
	ch := mk()
	for i := 0; i+1 < n; i++ {
		ch[i].A = ch[i+1]
		ch[i].B = ch[0]
	}
	ch[n-1].A = ch[n/2]
	out = append(out, struct {
		name string
		root *G0
	}{"chain-backedge", ch[0]})
	// binary tree (heap layout), leaves point to the root
	bt := mk()
	for i := range bt {
		if 2*i+1 < n {
			bt[i].A = bt[2*i+1]
		} else {
			bt[i].A = bt[0]
		}
		if 2*i+2 < n {
			bt[i].B = bt[2*i+2]
		} else {
			bt[i].B = bt[0]
		}
	}
	out = append(out, struct {
		name string
		root *G0
	}{"tree-leaves-to-root", bt[0]})
	return out
}

func init() {
	core.Register(&core.Prop{
		ID: "C04", Level: "model_checking",
		Rule:        "Exhaustive enumeration of pointer graphs through the real codec: every assignment of every pointer slot (A,B of each node in {nil,n0..}) for n<=3 (quick; n=4 for 4 fillers) / n<=4 (thorough) nodes, one representative per rooted isomorphism class, for each of 21 filler configurations (nil/empty/non-empty map, zero/non-zero time, empty/non-empty string, nil/non-nil []byte, nil/empty/non-empty []int32, nil/non-nil *struct, struct by value, fillers between the pointer slots); node types with slice-of-pointer and map-of-pointer fields incl. the same slice header or map in two sibling fields (n<=2 quick, n<=3 thorough); rings, double rings, chains with back edges and trees with leaves pointing to the root for every n in 1..64 (quick) / 1..200 (thorough). Oracle: encode returns; R1 resolves every emitted reference (stream order) to the container standing for the same original object; in the decoded graph the pairing original pointer <-> decoded pointer built by a parallel walk is a bijection. Distinct by construction (canonical graph x filler).",
		Assumptions: []string{"sharing is required for pointers to structs; for slices and maps content and the identity of their pointer elements are compared", "random 200-node graphs of the property text are replaced by enumerated families"},
		Units: func(tier string) []core.Unit {
			var us []core.Unit
			fl := fillers()
			for fi := range fl {
				f := fl[fi]
				maxN := 3
				if tier == "thorough" || fi == 0 || fi == 1 || fi == 3 || fi == 4 || fi == 9 || fi == 14 || fi == 16 || fi == 17 {
					maxN = 4
				}
				mn := maxN
				us = append(us, core.Unit{Name: fmt.Sprintf("graphs:%s:n<=%d", f.name, mn), Cost: 10 * mn * mn * mn, Run: func(c *core.Ctx) {
					for n := 1; n <= mn; n++ {
						canonicalGraphs(n, func(edges []int) {
							if !c.Begin() {
								return
							}
							c.NontrivialN(1)
							c.Res.States++
							c.Res.Transitions += int64(2 * n)
							root, _ := buildGraph(f, n, edges)
							desc := fmt.Sprintf("filler %q, %d nodes: %s", f.name, n, edgeDesc(n, edges))
							out := graphCheck(c, root, desc, "filler:"+f.name)
							c.Outcome(out)
							if n == 3 && c.WantSample() && c.Index()%97 == 5 {
								c.Sample(desc + " -> " + out)
							}
						})
					}
					c.Cover("filler:" + f.name)
				}})
			}
			// slices and maps of pointers
			for shard := 0; shard < 8; shard++ {
				shard := shard
				us = append(us, core.Unit{Name: fmt.Sprintf("graphs:list-map-fields:%d", shard), Cost: 60, Run: func(c *core.Ctx) {
					n := 3
					// per node: L in lists of length 0..2 over nodes, M with 0..1 entries
					var lopts [][]int
					lopts = append(lopts, nil)
					for a := 0; a < n; a++ {
						lopts = append(lopts, []int{a})
						for b := 0; b < n; b++ {
							lopts = append(lopts, []int{a, b})
						}
					}
					mopts := []int{-1}
					for a := 0; a < n; a++ {
						mopts = append(mopts, a)
					}
					per := len(lopts) * len(mopts)
					total := 1
					for i := 0; i < n; i++ {
						total *= per
					}
					for code := shard; code < total; code += 8 {
						for share := 0; share < 8; share++ {
							nodes := make([]*GLM, n)
							for i := range nodes {
								nodes[i] = &GLM{Id: int32(i + 1)}
							}
							x := code
							reach := map[int]bool{0: true}
							for i := 0; i < n; i++ {
								sel := x % per
								x /= per
								lo, mo := lopts[sel%len(lopts)], mopts[sel/len(lopts)]
								if lo != nil {
									nodes[i].L = []*GLM{}
									for _, t := range lo {
										nodes[i].L = append(nodes[i].L, nodes[t])
									}
								}
								if mo >= 0 {
									nodes[i].M = map[string]*GLM{"k": nodes[mo]}
								}
							}
							// reachability from n0 (otherwise the case duplicates a smaller one)
							changed := true
							for changed {
								changed = false
								for i := 0; i < n; i++ {
									if !reach[i] {
										continue
									}
									for _, t := range nodes[i].L {
										if !reach[int(t.Id)-1] {
											reach[int(t.Id)-1] = true
											changed = true
										}
									}
									for _, t := range nodes[i].M {
										if !reach[int(t.Id)-1] {
											reach[int(t.Id)-1] = true
											changed = true
										}
									}
								}
							}
							if len(reach) != n {
								continue
							}
							if share&1 == 1 {
								if len(nodes[0].L) == 0 {
									continue
								}
								nodes[0].L2 = nodes[0].L
							}
							if share&2 == 2 {
								if nodes[0].M == nil {
									continue
								}
								nodes[0].M2 = nodes[0].M
							}
							if share&4 == 4 {
								// the root's slice is also the slice of one of its own elements
								if n < 2 || len(nodes[0].L) == 0 || nodes[0].L[len(nodes[0].L)-1] == nodes[0] {
									continue
								}
								nodes[0].L[len(nodes[0].L)-1].L = nodes[0].L
							}
							if !c.Begin() {
								continue
							}
							c.NontrivialN(1)
							c.Res.States++
							c.Res.Transitions += int64(n)
							desc := fmt.Sprintf("GLM %d nodes, code %d, same slice in two fields=%v, same map in two fields=%v, root's slice also held by its last element=%v", n, code, share&1 == 1, share&2 == 2, share&4 == 4)
							c.Outcome(graphCheck(c, nodes[0], desc, "list-map-fields"))
						}
					}
					c.Cover("list-map-fields")
				}})
			}
			us = append(us, core.Unit{Name: "gc-during-encode", Cost: 40, Run: func(c *core.Ctx) {
				// structs written by value are registered through temporary copies; if the reference table does not
				// keep those alive, the collector may hand their addresses to later copies within the same message
				type byVal struct {
					H    zoo.Inner
					L    []zoo.Inner
					M    map[string]zoo.Inner
					P, Q *zoo.Inner
				}
				for _, n := range []int{10, 60, 200, 600} {
					if !c.Begin() {
						continue
					}
					c.NontrivialN(1)
					sh := &zoo.Inner{A: 1, S: "shared"}
					v := &byVal{H: zoo.Inner{A: -1, S: "h"}, M: map[string]zoo.Inner{"k": {A: 5, S: "m"}}, P: sh, Q: sh}
					for i := 0; i < n; i++ {
						v.L = append(v.L, zoo.Inner{A: int32(i), S: "e"})
					}
					tm, nm, _ := Maps(v)
					w := guard.NewWriter()
					w.OnWrite = func() { runtime.GC() }
					err := hessian.NewEncoder(nil, nm).WriteTo(w, v)
					desc := fmt.Sprintf("struct with %d by-value struct elements, runtime.GC() on every Write of the encode", n)
					if err != nil {
						c.Report(&core.Violation{Stage: "encode", Kind: "error", Shape: "gc-during-encode", Message: msgStrict(err.Error()), Case: desc})
						continue
					}
					c.Res.States++
					c.Res.Transitions += int64(w.Calls)
					c.Outcome(decodeAgainst(c, w.Buf, v, tm, nm, desc, "gc-during-encode", nil))
				}
				c.Cover("gc-during-encode")
			}})
			// thorough: every canonical graph with 5 nodes for four fillers, sharded by the root's two slots
			if tier == "thorough" {
				for _, fname := range []string{"none", "non-empty map", "by-value struct as first field", "one leaf object shared by all nodes"} {
					var f filler
					for _, x := range fl {
						if x.name == fname {
							f = x
						}
					}
					for a := -1; a < 5; a++ {
						f, a := f, a
						us = append(us, core.Unit{Name: fmt.Sprintf("graphs5:%s:rootA=%d", f.name, a), Cost: 400, Run: func(c *core.Ctx) {
							canonicalGraphs(5, func(edges []int) {
								if edges[0] != a || !c.Begin() {
									return
								}
								c.NontrivialN(1)
								c.Res.States++
								c.Res.Transitions += 10
								root, _ := buildGraph(f, 5, edges)
								c.Outcome(graphCheck(c, root, fmt.Sprintf("filler %q, 5 nodes: %s", f.name, edgeDesc(5, edges)), "filler:"+f.name))
							})
							c.Cover("graphs5")
						}})
					}
				}
			}
			// pointers into the inside of other values of the graph: the first field of a struct and the first
			// element of a slice have the address of the whole; they are different objects
			us = append(us, core.Unit{Name: "interior", Cost: 5, Run: func(c *core.Ctx) {
				// a zero-length slice that still points at the start of a non-empty slice written in the same message
				for mask := 0; mask < 32; mask++ {
					if !c.Begin() {
						continue
					}
					c.NontrivialN(1)
					c.Res.States++
					l := []zoo.Inner{{A: 1, S: "x"}, {A: 2, S: "y"}}
					pl := []*zoo.Inner{{A: 3}, {A: 4}}
					v, vp := &IntD{End: 3}, &IntDP{End: 3}
					if mask&1 != 0 {
						v.E0, vp.PE0 = l[:0], pl[:0]
					}
					if mask&2 != 0 {
						v.L, vp.PL = l, pl
					}
					if mask&4 != 0 {
						v.E1, vp.PE1 = l[:0], pl[:0]
					}
					if mask&8 != 0 {
						v.L2, vp.PL2 = l, pl
					}
					if mask&16 != 0 {
						v.E2, vp.PE2 = l[:0:0], pl[1:1]
					}
					desc := fmt.Sprintf("with fields %05b set (empty sub-slices s[:0] before / between / after the slice they are cut from)", mask)
					c.Outcome(graphCheck(c, v, "IntD "+desc, "interior"))
					c.Outcome(graphCheck(c, vp, "IntDP "+desc, "interior"))
				}
				// sub-slices of one array with the same start and different lengths, in every order of three fields
				for code := 0; code < 27; code++ {
					if !c.Begin() {
						continue
					}
					c.NontrivialN(1)
					c.Res.States++
					l := []zoo.Inner{{A: 1, S: "x"}, {A: 2, S: "y"}, {A: 3, S: "z"}}
					pl := []*zoo.Inner{{A: 4}, {A: 5}, {A: 6}}
					v, vp := &IntD{End: 3}, &IntDP{End: 3}
					v.L, vp.PL = l[:1+code%3], pl[:1+code%3]
					v.L2, vp.PL2 = l[:1+code/3%3], pl[:1+code/3%3]
					v.E2, vp.PE2 = l[:1+code/9], pl[:1+code/9]
					desc := fmt.Sprintf("with three prefixes of one array of lengths %d, %d, %d", 1+code%3, 1+code/3%3, 1+code/9)
					c.Outcome(graphCheck(c, v, "IntD "+desc, "interior"))
					c.Outcome(graphCheck(c, vp, "IntDP "+desc, "interior"))
				}
				for mask := 0; mask < 16; mask++ {
					for form := 0; form < 3; form++ {
						if !c.Begin() {
							continue
						}
						c.NontrivialN(1)
						c.Res.States++
						e := &zoo.Embedded{Base: zoo.Base{Id: 4, Name: "b"}, X: 5}
						l := []zoo.Inner{{A: 1, S: "x"}, {A: 2, S: "y"}}
						var root interface{}
						switch form {
						case 0:
							v := &IntA{End: 3}
							if mask&1 != 0 {
								v.First = &e.Base
							}
							if mask&2 != 0 {
								v.Whole = e
							}
							if mask&4 != 0 {
								v.Whole2 = e
							}
							if mask&8 != 0 {
								v.First2 = &e.Base
							}
							root = v
						case 1:
							v := &IntB{End: 3}
							if mask&1 != 0 {
								v.L = l
							}
							if mask&2 != 0 {
								v.P = &l[0]
							}
							if mask&4 != 0 {
								v.L2 = l
							}
							if mask&8 != 0 {
								v.P2 = &l[0]
							}
							root = v
						default:
							v := &IntC{End: 3}
							if mask&1 != 0 {
								v.P = &l[0]
							}
							if mask&2 != 0 {
								v.L = l
							}
							if mask&4 != 0 {
								v.P2 = &l[0]
							}
							if mask&8 != 0 {
								v.L2 = l
							}
							root = v
						}
						c.Outcome(graphCheck(c, root, fmt.Sprintf("%T with fields %04b set (pointer to the first field / first element next to the whole)", root, mask), "interior"))
					}
				}
				c.Cover("interior")
			}})
			// a map / slice field that is referred to again from inside its own entries / elements
			us = append(us, core.Unit{Name: "containers-inside-themselves", Cost: 5, Run: func(c *core.Ctx) {
				for code := 0; code < 64; code++ {
					if !c.Begin() {
						continue
					}
					c.NontrivialN(1)
					c.Res.States++
					n0, n1, n2 := &GLM{Id: 1}, &GLM{Id: 2}, &GLM{Id: 3}
					m := map[string]*GLM{"a": n1}
					l := []*GLM{n1, n2}
					if code&1 != 0 {
						n0.M = m
					}
					if code&2 != 0 {
						n1.M = m // the entry's own object holds the map again
					}
					if code&4 != 0 {
						n1.M2 = m
					}
					if code&8 != 0 {
						n0.L = l
					}
					if code&16 != 0 {
						n1.L = l // the element's own object holds the slice again
					}
					if code&32 != 0 {
						n2.L2, n2.A = l, n0
					}
					c.Outcome(graphCheck(c, n0, fmt.Sprintf("GLM n0 with map/slice held again from inside (bits %06b: n0.M n1.M n1.M2 n0.L n1.L n2.L2+n2.A)", code), "containers inside themselves"))
				}
				c.Cover("containers-inside-themselves")
			}})
			// maps and slices held directly and behind pointers: the same container over two paths stays one container,
			// two equal containers stay two
			us = append(us, core.Unit{Name: "containers-behind-pointers", Cost: 5, Run: func(c *core.Ctx) {
				for code := 0; code < 18*18; code++ {
					if !c.Begin() {
						continue
					}
					c.NontrivialN(1)
					c.Res.States++
					m1, m2 := map[string]*zoo.Inner{"k": {A: 1}}, map[string]*zoo.Inner{"k": {A: 1}}
					l1, l2 := []*zoo.Inner{{A: 2}, {A: 3}}, []*zoo.Inner{{A: 2}, {A: 3}}
					v := &PCG{End: 7}
					mc, lc := code%18, code/18
					if mc%2 == 1 {
						v.M = m1
					}
					switch mc / 2 % 3 {
					case 1:
						v.PM = &m1
					case 2:
						v.PM = &m2
					}
					switch mc / 6 {
					case 1:
						v.M2 = m1
					case 2:
						v.M2 = m2
					}
					if lc%2 == 1 {
						v.L = l1
					}
					switch lc / 2 % 3 {
					case 1:
						v.PL = &l1
					case 2:
						v.PL = &l2
					}
					switch lc / 6 {
					case 1:
						v.L2 = l1
					case 2:
						v.L2 = l2
					}
					c.Outcome(graphCheck(c, v, fmt.Sprintf("PCG map fields %d%d%d, slice fields %d%d%d (field, pointer field: 0 nil 1 same 2 other, second field: 0 nil 1 same 2 other)", mc%2, mc/2%3, mc/6, lc%2, lc/2%3, lc/6), "containers behind pointers"))
				}
				c.Cover("containers-behind-pointers")
			}})
			// very many objects in one message: late objects must keep their sharing like early ones
			us = append(us, core.Unit{Name: "large", Cost: 60, Run: func(c *core.Ctx) {
				for _, lc := range largeCases(tier) {
					if !strings.Contains(lc.desc, "[]*Inner") || !c.Begin() {
						continue
					}
					c.NontrivialN(1)
					c.Res.States++
					c.Outcome(graphCheck(c, lc.mk(), lc.desc, "large"))
				}
				c.Cover("large")
			}})
			us = append(us, core.Unit{Name: "families", Cost: 80, Run: func(c *core.Ctx) {
				maxN := tierPick(tier, 120, 200)
				for n := 1; n <= maxN; n++ {
					for _, fam := range bigFamilies(n) {
						if !c.Begin() {
							continue
						}
						c.NontrivialN(1)
						c.Res.States++
						c.Res.Transitions += int64(n)
						c.Outcome(graphCheck(c, fam.root, fmt.Sprintf("%s of %d nodes", fam.name, n), "family:"+fam.name))
					}
				}
				c.Cover("families")
				c.Sample(fmt.Sprintf("ring, double-ring, chain-backedge, tree-leaves-to-root for every n in 1..%d", maxN))
			}})
			return us
		},
		RequireCover: func(string) []string {
			l := []string{"families", "large", "interior", "containers-behind-pointers", "containers-inside-themselves", "list-map-fields", "gc-during-encode"}
			for _, f := range fillers() {
				l = append(l, "filler:"+f.name)
			}
			return l
		},
	})
}
