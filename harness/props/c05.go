package props

import (
	"fmt"
	"reflect"
	"strings"

	"verif/harness/core"
	"verif/harness/explore"
	rh "verif/harness/refhessian"
	"verif/harness/zoo"
)

// binding targets: 1..5 fields mixing kinds
type B1 struct{ A int32 }
type B2 struct {
	A int32
	S string
}
type B3 struct {
	A int32
	S string
	F bool
}
type B4 struct {
	In zoo.Inner
	A  int32
	L  []string
	S  string
}
type B5 struct {
	M map[string]int32
	P *B5
	A int32
	L []string
	S string
}

// B7 has two pointer fields that may share one object with a field the Go type does not have.
type B7 struct {
	Name string
	P    *zoo.Inner
	Q    *zoo.Inner
}

// B8 has fields whose names differ in the first letter only.
type B8 struct {
	Host string
	Post string
	X    int32
	Y    int32
}

// B6 embeds a struct: the wire may carry (flat, Java-style) fields named like the promoted fields.
type B6 struct {
	zoo.Base
	X int32
}

func bindingTargets() []interface{} {
	return []interface{}{
		&B6{Base: zoo.Base{Id: 61, Name: "base"}, X: 16},
		&B1{A: 11},
		&B2{A: 12, S: "s2"},
		&B3{A: 13, S: "s3", F: true},
		&B4{In: zoo.Inner{A: 5, S: "in"}, A: 14, L: []string{"l1", "l2"}, S: "s4"},
		&B5{M: map[string]int32{"k": 7}, P: &B5{A: 99, S: "p"}, A: 15, L: []string{"x"}, S: "s5"},
		&B8{Host: "h", Post: "p", X: 1, Y: 2},
	}
}

func tname(v interface{}) string { return reflect.TypeOf(v).Elem().Name() }

func permutations(n int) [][]int {
	var res [][]int
	var rec func(cur []int, used []bool)
	rec = func(cur []int, used []bool) {
		if len(cur) == n {
			res = append(res, append([]int{}, cur...))
			return
		}
		for i := 0; i < n; i++ {
			if !used[i] {
				used[i] = true
				rec(append(cur, i), used)
				used[i] = false
			}
		}
	}
	rec(nil, make([]bool, n))
	return res
}

var innerClass = &rh.Class{Name: "Inner", Fields: []string{"a", "s"}}

var unknownClass = &rh.Class{Name: "com.example.Unknown", Fields: []string{"q"}}

// extraValues are the wire kinds an unknown field may carry.
func extraValues(self *rh.Value) []struct {
	name string
	v    *rh.Value
} {
	return []struct {
		name string
		v    *rh.Value
	}{
		{"null", rh.NullV()}, {"int", rh.IntV(300)}, {"long", rh.LongV(1 << 40)}, {"double", rh.DoubleV(2.5)}, {"bool", rh.BoolV(true)},
		{"string", rh.StringV("extra")}, {"binary", rh.BinaryV([]byte{1, 2, 3})}, {"date", rh.DateV(1577934245678)},
		{"typed list", &rh.Value{K: rh.List, Typed: true, Type: "[string", Elems: []*rh.Value{rh.StringV("e1"), rh.StringV("e2")}}},
		{"untyped list", &rh.Value{K: rh.List, Elems: []*rh.Value{rh.IntV(1), rh.StringV("e")}}},
		{"map", &rh.Value{K: rh.Map, Elems: []*rh.Value{rh.StringV("k"), rh.IntV(1)}}},
		{"unknown-class object", &rh.Value{K: rh.Object, Class: unknownClass, Elems: []*rh.Value{rh.IntV(5)}}},
		{"ref to the object itself", self},
		{"registered-class object", &rh.Value{K: rh.Object, Class: innerClass, Elems: []*rh.Value{rh.IntV(8), rh.StringV("reg")}}},
	}
}

// extraForms are further payloads of an unknown field: every wire form of the numbers, strings and binaries of
// every size class, empty and typed containers, and nested skipping. They are tried at every wire position of the
// identity and the reversed definition order (the core extraValues are tried in the full product).
func extraForms() []struct {
	name string
	v    *rh.Value
} {
	return []struct {
		name string
		v    *rh.Value
	}{
		// every wire form of the numbers
		{"int 1-octet", rh.IntV(0)}, {"int 2-octet", rh.IntV(-2000)}, {"int 3-octet", rh.IntV(200000)}, {"int 5-octet", rh.IntV(1 << 30)},
		{"long 1-octet", rh.LongV(3)}, {"long 2-octet", rh.LongV(-2000)}, {"long 3-octet", rh.LongV(200000)}, {"long 5-octet", rh.LongV(3000000)}, {"long 9-octet negative", rh.LongV(-(1 << 50))},
		{"double zero", rh.DoubleV(0)}, {"double one", rh.DoubleV(1)}, {"double byte", rh.DoubleV(100)}, {"double short", rh.DoubleV(30000)}, {"double 9-octet", rh.DoubleV(0.1)},
		{"bool false", rh.BoolV(false)}, {"date in minutes", rh.DateV(1577934240000)},
		{"empty string", rh.StringV("")}, {"short non-ASCII string", rh.StringV("héé")}, {"short 4-byte string", rh.StringV("a😀b😀")}, {"40 CJK chars", rh.StringV(strings.Repeat("中", 40))}, {"1000 2-byte chars", rh.StringV(strings.Repeat("é", 1000))}, {"string of 40 chars", rh.StringV(strings.Repeat("m", 40))}, {"string of 1100 chars", rh.StringV(strings.Repeat("l", 1100))}, {"string in three chunks", rh.StringV(strings.Repeat("é", 70000))},
		{"empty binary", rh.BinaryV([]byte{})}, {"binary of 20 octets", rh.BinaryV(make([]byte, 20))}, {"binary of 1100 octets", rh.BinaryV(make([]byte, 1100))}, {"binary in chunks", rh.BinaryV(make([]byte, 70000))},
		{"empty list", &rh.Value{K: rh.List}}, {"empty map", &rh.Value{K: rh.Map}},
		{"typed list of strings (its type name enters the type table)", &rh.Value{K: rh.List, Typed: true, Type: "[string", Elems: []*rh.Value{rh.StringV("e1")}}},
		{"typed list of an unregistered type", &rh.Value{K: rh.List, Typed: true, Type: "[com.example.NoSuch", Elems: []*rh.Value{rh.IntV(1), rh.StringV("two"), rh.IntV(3)}}},
		{"typed list of an unregistered type holding an unknown-class object", &rh.Value{K: rh.List, Typed: true, Type: "[com.example.NoSuch", Elems: []*rh.Value{{K: rh.Object, Class: unknownClass, Elems: []*rh.Value{rh.IntV(5)}}}}},
		{"typed map with a string key (its type name enters the type table)", &rh.Value{K: rh.Map, Typed: true, Type: "com.example.M2", Elems: []*rh.Value{rh.StringV("k"), rh.StringV("v")}}},
		{"typed map", &rh.Value{K: rh.Map, Typed: true, Type: "com.example.M", Elems: []*rh.Value{rh.IntV(1), rh.StringV("v")}}},
		{"list of 9 elements", &rh.Value{K: rh.List, Elems: []*rh.Value{rh.IntV(1), rh.IntV(2), rh.IntV(3), rh.IntV(4), rh.IntV(5), rh.IntV(6), rh.IntV(7), rh.IntV(8), rh.IntV(9)}}},
		// three kinds of skipping nested in each other: a registered-class object whose own definition has an
		// unknown field holding an unknown-class object, followed by another unknown-class object
		{"nested skipping", &rh.Value{K: rh.List, Elems: []*rh.Value{
			{K: rh.Object, Class: &rh.Class{Name: "Inner", Fields: []string{"a", "zzNested", "s"}}, Elems: []*rh.Value{rh.IntV(8),
				{K: rh.Object, Class: &rh.Class{Name: "com.example.Deep", Fields: []string{"d", "e"}}, Elems: []*rh.Value{rh.IntV(1), {K: rh.Map, Elems: []*rh.Value{rh.StringV("k"), {K: rh.Object, Class: unknownClass, Elems: []*rh.Value{rh.IntV(6)}}}}}},
				rh.StringV("reg")}},
			{K: rh.Object, Class: unknownClass, Elems: []*rh.Value{rh.IntV(5)}},
			{K: rh.Object, Class: innerClass, Elems: []*rh.Value{rh.IntV(9), rh.StringV("after")}},
		}}},
	}
}

func capFirst(s string) string {
	if s != "" && s[0] >= 'a' && s[0] <= 'z' {
		return string(s[0]-32) + s[1:]
	}
	return s
}

type fixedPick struct{ m map[string]int }

func (f fixedPick) Pick(n int, label string) int {
	for k, v := range f.m {
		if len(label) >= len(k) && label[:len(k)] == k && v < n {
			return v
		}
	}
	return 0
}

func init() {
	core.Register(&core.Prop{
		ID: "C05", Level: "model_checking",
		Rule:        "Exhaustive enumeration over reference-encoded objects decoded by the real decoder. Part 1 (definitions): for each of 6 target structs (1..5 fields mixing int, string, bool, nested struct, []string, map, self pointer; one with an embedded struct, whose unknown wire fields are named like the promoted fields): every permutation of the definition's field list x every subset of fields dropped x one extra unknown field at every position carrying each of 13 wire kinds (or none) x field names capitalised or not (quick: 5-field target with <=2 of {drop, extra, capitalise} deviations; thorough: full product). Part 2 (positions): the target class at every position p in 0..40 of the stream's definition table, reached by p structurally distinct dummy classes defined and instantiated as earlier list elements or by p definitions hoisted to the front, instance in short form (p<=15) and long form (every p), with the neighbouring classes instantiated around it. Oracle: each Go field holds exactly the wire value of the same-named wire field, dropped fields are zero, nothing after an unknown field is disturbed, every dummy instance shows the values of its own definition. Distinct by construction.",
		Assumptions: []string{"unknown-class objects and forward references as unknown-field payloads are part of the alphabet", "the type map binds every dummy wire class name to one Go struct type"},
		Units: func(tier string) []core.Unit {
			var us []core.Unit
			for _, tv := range bindingTargets() {
				tv := tv
				n := reflect.TypeOf(tv).Elem().NumField()
				full := true
				us = append(us, core.Unit{Name: fmt.Sprintf("defs:%s", tname(tv)), Cost: n * n * 10, Run: func(c *core.Ctx) {
					tm, nm, _ := Maps(tv)
					perms := permutations(n)
					base := zoo.NewDenoter(nm).Denote(tv)
					nExtra := len(extraValues(base))
					ex := &explore.Explorer{Bound: 2}
					if full {
						ex.Bound = 64
					}
					ex.Case = func(ch *explore.Chooser) {
						perm := perms[ch.All(len(perms), "perm")]
						drop := make([]bool, n)
						for i := 0; i < n; i++ {
							drop[i] = ch.Dev(2, "drop") == 1
						}
						extraSel := ch.Dev(1+(n+1)*nExtra, "extra")
						capit := ch.Dev(2, "capitalise") == 1
						if !c.Begin() {
							return
						}
						// build the wire object
						obj := zoo.NewDenoter(nm).Denote(tv)
						want := reflect.New(reflect.TypeOf(tv).Elem())
						want.Elem().Set(reflect.ValueOf(tv).Elem())
						cls := &rh.Class{Name: obj.Class.Name}
						var vals []*rh.Value
						for _, fi := range perm {
							if drop[fi] {
								want.Elem().Field(fi).Set(reflect.Zero(want.Elem().Field(fi).Type()))
								continue
							}
							name := obj.Class.Fields[fi]
							if capit {
								name = capFirst(name)
							}
							cls.Fields = append(cls.Fields, name)
							vals = append(vals, obj.Elems[fi])
						}
						wire := &rh.Value{K: rh.Object, Class: cls}
						extraDesc := "none"
						if extraSel > 0 {
							pos := (extraSel - 1) / nExtra
							ev := extraValues(wire)[(extraSel-1)%nExtra]
							if pos > len(cls.Fields) {
								pos = len(cls.Fields)
							}
							// the unknown field's name: a name no Go field has, or (for types with an embedded struct)
							// the name of a field promoted from the embedded struct, which is not a field of the class
							uname := "zzUnknown"
							if _, emb := tv.(*B6); emb {
								uname = []string{"id", "name", "Id", "zzUnknown"}[((extraSel-1)/nExtra+(extraSel-1)%nExtra)%4]
							}
							cls.Fields = append(cls.Fields[:pos], append([]string{uname}, cls.Fields[pos:]...)...)
							vals = append(vals[:pos], append([]*rh.Value{ev.v}, vals[pos:]...)...)
							extraDesc = fmt.Sprintf("%s at wire position %d", ev.name, pos)
							c.Cover("extra:" + ev.name)
						}
						wire.Elems = vals
						e := rh.NewEncoder(nil)
						e.Top(wire)
						desc := fmt.Sprintf("%s definition order %v dropped %v extra unknown field: %s capitalised=%v", tname(tv), perm, drop, extraDesc, capit)
						if _, err := rh.ParseOne(e.Out); err != nil {
							c.Report(&core.Violation{Stage: "selfcheck", Kind: "harness", Shape: "R1", Message: err.Error(), Case: desc})
							return
						}
						shape := "defs"
						if extraSel > 0 {
							shape = "defs extra:" + extraValues(wire)[(extraSel-1)%nExtra].name
						}
						out := decodeAgainst(c, e.Out, want.Interface(), tm, nm, desc, shape, ch.Choices())
						c.Outcome(out)
						if c.WantSample() && extraSel > 0 && c.Index()%17 == 3 {
							c.Sample(desc + " -> " + out)
						}
					}
					ex.Visit = func(*explore.Chooser) bool { return !c.Expired() }
					ex.Run(nil)
					c.Res.States += ex.Stats.Executions
					c.Res.Transitions += ex.Stats.Transitions
					c.NontrivialN(ex.Stats.Executions)
					c.Cover("defs:" + tname(tv))
				}})
			}
			for _, tv := range bindingTargets() {
				tv := tv
				n := reflect.TypeOf(tv).Elem().NumField()
				us = append(us, core.Unit{Name: fmt.Sprintf("extra-forms:%s", tname(tv)), Cost: n * 5, Run: func(c *core.Ctx) {
					tm, nm, _ := Maps(tv)
					for _, rev := range []bool{false, true} {
						for pos := 0; pos <= n; pos++ {
							for _, ev := range extraForms() {
								for _, backref := range []int{0, 1, 2} {
									if !c.Begin() {
										continue
									}
									c.NontrivialN(1)
									c.Res.States++
									c.Res.Transitions++
									obj := zoo.NewDenoter(nm).Denote(tv)
									cls := &rh.Class{Name: obj.Class.Name}
									var vals []*rh.Value
									for i := 0; i < n; i++ {
										fi := i
										if rev {
											fi = n - 1 - i
										}
										if i == pos {
											cls.Fields = append(cls.Fields, "zzUnknown")
											vals = append(vals, ev.v)
										}
										cls.Fields = append(cls.Fields, obj.Class.Fields[fi])
										vals = append(vals, obj.Elems[fi])
									}
									if pos == n {
										cls.Fields = append(cls.Fields, "zzUnknown")
										vals = append(vals, ev.v)
									}
									var pick rh.Choices
									if backref == 2 {
										// every list in its variable-length form (the payload of the unknown field too)
										pick = policyPick{"variable-length lists", map[string]int{"list-form": -1}}
									}
									if backref == 1 {
										// later types are named by back-reference wherever the grammar allows it (also to a
										// type name first spelled out inside the skipped value)
										pick = policyPick{"type back-references", map[string]int{"type-backref": 1}}
									}
									e := rh.NewEncoder(pick)
									e.Top(&rh.Value{K: rh.Object, Class: cls, Elems: vals})
									desc := fmt.Sprintf("%s (reversed definition order=%v, policy %d of canonical / type back-references / variable-length lists) with an unknown field holding %s at wire position %d", tname(tv), rev, backref, ev.name, pos)
									if _, err := rh.ParseOne(e.Out); err != nil {
										c.Report(&core.Violation{Stage: "selfcheck", Kind: "harness", Shape: "R1", Message: err.Error(), Case: desc})
										continue
									}
									c.Outcome(decodeAgainst(c, e.Out, tv, tm, nm, desc, "defs extra-form:"+ev.name, nil))
								}
							}
						}
					}
					c.Cover("extra-forms")
				}})
			}
			// two unknown fields in one definition, every pair of core payloads at every pair of positions
			for _, tv := range bindingTargets() {
				tv := tv
				n := reflect.TypeOf(tv).Elem().NumField()
				us = append(us, core.Unit{Name: fmt.Sprintf("two-unknown:%s", tname(tv)), Cost: n * n * 5, Run: func(c *core.Ctx) {
					tm, nm, _ := Maps(tv)
					nExtra := len(extraValues(nil))
					for p1 := 0; p1 <= n; p1++ {
						for p2 := p1; p2 <= n; p2++ {
							for e1 := 0; e1 < nExtra; e1++ {
								for e2 := 0; e2 < nExtra; e2++ {
									if !c.Begin() {
										continue
									}
									c.NontrivialN(1)
									c.Res.States++
									c.Res.Transitions++
									obj := zoo.NewDenoter(nm).Denote(tv)
									wire := &rh.Value{K: rh.Object, Class: &rh.Class{Name: obj.Class.Name}}
									evs := extraValues(wire)
									for i := 0; i <= n; i++ {
										if i == p1 {
											wire.Class.Fields = append(wire.Class.Fields, "zzFirst")
											wire.Elems = append(wire.Elems, evs[e1].v)
										}
										if i == p2 {
											wire.Class.Fields = append(wire.Class.Fields, "zzSecond")
											v2 := evs[e2].v
											if e1 == e2 && v2 != wire {
												v2 = extraValues(wire)[e2].v // a second copy, not the same node
											}
											wire.Elems = append(wire.Elems, v2)
										}
										if i < n {
											wire.Class.Fields = append(wire.Class.Fields, obj.Class.Fields[i])
											wire.Elems = append(wire.Elems, obj.Elems[i])
										}
									}
									e := rh.NewEncoder(nil)
									e.Top(wire)
									desc := fmt.Sprintf("%s with unknown fields holding %s at wire position %d and %s at %d", tname(tv), evs[e1].name, p1, evs[e2].name, p2)
									if _, err := rh.ParseOne(e.Out); err != nil {
										c.Report(&core.Violation{Stage: "selfcheck", Kind: "harness", Shape: "R1", Message: err.Error(), Case: desc})
										continue
									}
									c.Outcome(decodeAgainst(c, e.Out, tv, tm, nm, desc, "defs two-unknown", nil))
								}
							}
						}
					}
					c.Cover("two-unknown")
				}})
			}
			// an unknown field holds an instance of a registered class and a LATER known field refers back to it
			us = append(us, core.Unit{Name: "unknown-field-target-of-later-ref", Cost: 5, Run: func(c *core.Ctx) {
				type holder = B7
				tm, nm, _ := Maps(&B7{P: &zoo.Inner{}, Q: &zoo.Inner{}})
				for _, order := range [][]string{{"zzBackup", "name", "p"}, {"name", "zzBackup", "p"}, {"zzBackup", "p", "q", "name"}, {"q", "zzBackup", "name", "p"}} {
					for _, long := range []bool{false, true} {
						if !c.Begin() {
							continue
						}
						c.NontrivialN(1)
						shared := &rh.Value{K: rh.Object, Class: innerClass, Elems: []*rh.Value{rh.IntV(8), rh.StringV("reg")}}
						cls := &rh.Class{Name: nm["B7"], Fields: order}
						obj := &rh.Value{K: rh.Object, Class: cls}
						want := &B7{Name: "n"}
						sharedGo := &zoo.Inner{A: 8, S: "reg"}
						first := true
						for _, f := range order {
							switch f {
							case "zzBackup":
								obj.Elems = append(obj.Elems, shared)
							case "name":
								obj.Elems = append(obj.Elems, rh.StringV("n"))
							case "p":
								obj.Elems = append(obj.Elems, shared)
								want.P = sharedGo
							case "q":
								obj.Elems = append(obj.Elems, shared)
								want.Q = sharedGo
							}
							_ = first
						}
						pick := fixedPick{map[string]int{}}
						if long {
							pick.m["object-form"] = 1
						}
						e := rh.NewEncoder(pick)
						e.Top(obj)
						desc := fmt.Sprintf("B7 definition %v (long form=%v): the unknown field zzBackup holds the Inner instance that p/q refer back to", order, long)
						if _, err := rh.ParseOne(e.Out); err != nil {
							c.Report(&core.Violation{Stage: "selfcheck", Kind: "harness", Shape: "R1", Message: err.Error(), Case: desc})
							continue
						}
						c.Outcome(decodeAgainst(c, e.Out, want, tm, nm, desc, "unknown-field-target-of-later-ref", nil))
					}
				}
				c.Cover("unknown-field-target")
			}})
			// part 2: class positions
			for _, hoistMode := range []int{0, 1, 2} {
				hoist, reversed := hoistMode > 0, hoistMode == 2
				us = append(us, core.Unit{Name: fmt.Sprintf("positions:hoist=%v:reversed=%v", hoist, reversed), Cost: 50, Run: func(c *core.Ctx) {
					target := &B3{A: 13, S: "s3", F: true}
					tm, nm, _ := Maps(target)
					c1t := reflect.TypeOf(zoo.C1{})
					ps := []int{63, 64, 65, 97, 98, 99, 100, 127, 128, 129, 254, 255, 256, 257, 300, 1000}
					for p := 40; p >= 0; p-- {
						ps = append([]int{p}, ps...)
					}
					for _, p := range ps {
						for _, long := range []bool{false, true} {
							if !long && p > 15 {
								continue
							}
							for _, after := range []int{0, 1, 3} {
								if !c.Begin() {
									continue
								}
								c.NontrivialN(1)
								c.Res.States++
								c.Res.Transitions += int64(p + after + 1)
								tmm := copyTypeMap(tm)
								mkDummy := func(i int) (*rh.Value, interface{}) {
									cls := &rh.Class{Name: fmt.Sprintf("dummy.D%d", i)}
									var vals []*rh.Value
									if i%2 == 0 {
										cls.Fields = []string{"x", "v"}
										vals = []*rh.Value{rh.IntV(int32(i)), rh.IntV(int32(1000 + i))}
									} else {
										cls.Fields = []string{"v", "x", "y"}
										vals = []*rh.Value{rh.IntV(int32(1000 + i)), rh.IntV(int32(i)), rh.StringV("y")}
									}
									tmm[cls.Name] = c1t
									return &rh.Value{K: rh.Object, Class: cls, Elems: vals}, &zoo.C1{V: int32(1000 + i)}
								}
								list := &rh.Value{K: rh.List}
								var wantL []interface{}
								for i := 0; i < p; i++ {
									d, w := mkDummy(i)
									list.Elems = append(list.Elems, d)
									wantL = append(wantL, w)
								}
								list.Elems = append(list.Elems, zoo.NewDenoter(nm).Denote(target))
								wantL = append(wantL, target)
								if p >= 1 && after >= 1 {
									// the very same definition a second time (a writer may repeat a definition; it takes a
									// new index like any other), then classes defined after it
									d, w := mkDummy(0)
									list.Elems = append(list.Elems, d)
									wantL = append(wantL, w)
								}
								for i := 0; i < after; i++ {
									d, w := mkDummy(p + 1 + i)
									list.Elems = append(list.Elems, d)
									wantL = append(wantL, w)
								}
								// a second instance of the target and of the first dummy, by definition index
								list.Elems = append(list.Elems, zoo.NewDenoter(nm).Denote(&B3{A: 77, S: "again"}))
								wantL = append(wantL, &B3{A: 77, S: "again"})
								// share class objects between first and second target instance
								list.Elems[len(list.Elems)-1].Class = list.Elems[p].Class
								pick := fixedPick{map[string]int{}}
								if hoist {
									pick.m["hoist-classdef"] = 1
								}
								if reversed {
									pick.m["hoist-order"] = 1 // definitions up front in the reverse of the order of first use
								}
								if long {
									pick.m["object-form"] = 1
								}
								e := rh.NewEncoder(pick)
								e.Top(list)
								desc := fmt.Sprintf("target class at definition index %d (hoisted=%v, reverse order=%v, long form=%v, %d classes after it)", p, hoist, reversed, long, after)
								if _, err := rh.ParseOne(e.Out); err != nil {
									c.Report(&core.Violation{Stage: "selfcheck", Kind: "harness", Shape: "R1", Message: err.Error(), Case: desc})
									continue
								}
								idxClass := "index<=15"
								if p > 15 {
									idxClass = "index>15"
								}
								out := decodeAgainst(c, e.Out, wantL, tmm, nm, desc, "positions "+idxClass, nil)
								c.Outcome(out)
								if p == 16 && long && after == 1 {
									c.Sample(desc + " -> " + out)
								}
							}
						}
					}
					c.Cover(fmt.Sprintf("positions:hoist=%v", hoist))
					if reversed {
						c.Cover("positions:reversed")
					}
				}})
			}
			return us
		},
		RequireCover: func(string) []string {
			return []string{"extra-forms", "two-unknown", "defs:B1", "defs:B5", "defs:B6", "positions:hoist=true", "positions:hoist=false", "positions:reversed", "extra:unknown-class object", "extra:ref to the object itself", "extra:map", "extra:null", "extra:registered-class object", "unknown-field-target"}
		},
	})
}
