package props

import (
	"fmt"
	"strings"

	"verif/harness/core"
	rh "verif/harness/refhessian"
	"verif/harness/zoo"
)

// compactDatesAsSeconds rewrites every compact (x4b) date of a parsed tree as if its
// payload were seconds; it reports whether any was present.
func compactDatesAsSeconds(v *rh.Value, seen map[*rh.Value]bool) bool {
	if v == nil || seen[v] {
		return false
	}
	seen[v] = true
	found := false
	if v.K == rh.Date && v.Compact {
		v.I = v.I / 60
		found = true
	}
	for _, e := range v.Elems {
		if compactDatesAsSeconds(e, seen) {
			found = true
		}
	}
	return found
}

// Twin has a namesake in package zoo with fewer fields.
type Twin struct {
	A int32
	B int32
	C interface{}
}

// wireCheck performs the C02 check for one value.
func wireCheck(c *core.Ctx, val interface{}, desc, shape string, choices []int) string {
	out := wireCheckNames(c, val, desc, shape, choices, false)
	if out != "ok" {
		return out
	}
	// the same value written without a name map (Go type names as class names, untyped lists and maps):
	// what is written must not depend on what the process wrote before under other names
	return wireCheckNames(c, val, desc+" (nil name map)", shape+" nil-names", choices, true)
}

func wireCheckNames(c *core.Ctx, val interface{}, desc, shape string, choices []int, nilNames bool) string {
	rep := func(stage, kind, msg, detail string) string {
		c.Report(&core.Violation{Stage: stage, Kind: kind, Shape: shape, Message: msgClass(msg), Case: desc, Detail: detail, Choices: choices})
		return stage + "/" + kind
	}
	_, nm, p := Maps(val)
	if p != "" {
		return "skip:maps-panic" // C16's concern
	}
	if nilNames {
		nm = nil
	}
	enc := Encode(val, nm)
	if !enc.OK() {
		return "skip:encode-fails" // C01's concern
	}
	parsed, err := rh.ParseOne(enc.Bytes)
	if err != nil {
		return rep("refparse", "malformed", "reference decoder rejects the encoder's output: "+err.Error(), hexs(enc.Bytes))
	}
	var want *rh.Value
	if p := core.Catch(func() { want = zoo.NewDenoter(nm).Denote(val) }); p != "" {
		return rep("denote", "harness", p, "")
	}
	opts := zoo.BisimOpts{NilEmpty: true, Pairing: map[*rh.Value]*rh.Value{}}
	d := zoo.Bisim(want, parsed, opts)
	if d == "" {
		return "ok"
	}
	// does the difference disappear when compact dates are read as seconds?
	if compactDatesAsSeconds(parsed, map[*rh.Value]bool{}) {
		opts.Pairing = map[*rh.Value]*rh.Value{}
		if zoo.Bisim(want, parsed, opts) == "" {
			return rep("denote", "mismatch", "compact date form x4b carries seconds; the grammar defines its payload as minutes", d+" | bytes "+hexs(enc.Bytes))
		}
	}
	kind := "mismatch"
	msg := "wire value differs from the intended value at " + diffShape(d)
	switch {
	case strings.Contains(d, "reference resolves"):
		msg = "a back-reference resolves to the wrong container"
	case strings.Contains(d, "class "):
		msg = "class definition differs: " + d[strings.Index(d, "class "):]
	case strings.Contains(d, "list type"):
		msg = "list type differs at " + diffShape(d)
	case strings.Contains(d, "list length"):
		msg = "list length differs at " + diffShape(d)
	}
	return rep("denote", kind, msg, d+" | bytes "+hexs(enc.Bytes))
}

func init() {
	core.Register(&core.Prop{
		ID: "C02", Level: "model_checking",
		Rule: "Same exhaustive enumeration as C01 (zoo values with <=k deviating positions, BMP strings only; lengths 0..600; class counts 1..20). Each case: real ToBytes, then the R1 strict reference parser must accept the bytes as exactly one value with nothing left over, and the parsed graph (back-references resolved in stream order) must be bisimilar to the R2 denotation: class name, lower-cased field names in order, list type name and count, numbers, instants, and every reference resolving to the container that stands for the same original object. Non-trivial = at least one deviating position; distinct by case description hash.",
		Assumptions: []string{
			"R1 is written from the Hessian 2.0 grammar; golden vectors from the specification examples and a self round trip over its whole choice space anchor it (go test ./refhessian)",
			"non-final binary chunks may be tagged 0x41 (collected grammar) or 'b' (per-type section) when class #2 is undefined",
			"strings are restricted to the BMP (16-bit units vs code points above U+FFFF is a specification ambiguity)",
			"nil/empty containers and null/empty strings are identified",
		},
		Units: func(tier string) []core.Unit {
			var us []core.Unit
			for i := range zoo.Types {
				t := &zoo.Types[i]
				k := 2
				if t.Small {
					k = 3
				}
				if tier == "thorough" && zooSlots(t) <= 7 {
					k++ // one more deviation where the value has few slots (the space grows as slots^k)
				}
				if t.Name == "Scalars" || t.Name == "Many" {
					k-- // many slots: the bound is one lower
				}
				kk := k
				us = append(us, core.Unit{Name: fmt.Sprintf("gen:%s:k%d", t.Name, kk), Cost: 10 * kk, Run: func(c *core.Ctx) {
					ForEachZoo(c, t, kk, true, func(zc *ZooCase) {
						out := wireCheck(c, zc.Val, zc.Desc, t.Name, zc.Choices)
						c.Outcome(out)
						c.Cover("type:" + t.Name)
						if zc.Devs > 0 && c.WantSample() && c.Index()%11 == 5 {
							c.Sample(zc.Desc + " -> " + out)
						}
					})
				}})
			}
			for _, lc := range lengthCases() {
				lc := lc
				us = append(us, core.Unit{Name: "len:" + lc.name, Cost: 50, Run: func(c *core.Ctx) {
					maxLen := 600
					if lc.name == "bytes" || lc.name == "string" {
						maxLen = 1100
					}
					for n := 0; n <= maxLen; n++ {
						if !c.Begin() {
							continue
						}
						c.NontrivialN(1)
						c.Res.States++
						c.Res.Transitions++
						c.Outcome(wireCheck(c, lc.mk(n), fmt.Sprintf("%s length=%d", lc.name, n), "len:"+lc.name, nil))
					}
					c.Cover("lengths:" + lc.name)
				}})
			}
			us = append(us, core.Unit{Name: "large", Cost: 120, Run: func(c *core.Ctx) {
				for _, lc := range largeCases(tier) {
					if !c.Begin() {
						continue
					}
					c.NontrivialN(1)
					c.Res.States++
					c.Res.Transitions++
					c.Outcome(wireCheck(c, lc.mk(), lc.desc, "large", nil))
				}
				c.Cover("large")
			}})
			us = append(us, core.Unit{Name: "classes", Cost: 5, Run: func(c *core.Ctx) {
				classCountCases(func(desc string, v interface{}) {
					if !c.Begin() {
						return
					}
					c.NontrivialN(1)
					c.Res.States++
					c.Res.Transitions++
					c.Outcome(wireCheck(c, v, desc, "classes", nil))
				})
				// two Go struct types with one class name (the name carries no package path), in every order of
				// four instances: each instance must be written under a definition with its own field list
				for mask := 0; mask < 16; mask++ {
					if !c.Begin() {
						continue
					}
					c.NontrivialN(1)
					c.Res.States++
					var l []interface{}
					for i := 0; i < 4; i++ {
						if mask>>uint(i)&1 == 0 {
							l = append(l, zoo.Twin{A: int32(i + 1)})
						} else {
							l = append(l, Twin{A: int32(i + 1), B: int32(10 + i), C: "c"})
						}
					}
					c.Outcome(wireCheck(c, l, fmt.Sprintf("[]interface{} of zoo.Twin{A} (0) and props.Twin{A,B,C} (1) instances in the order %04b", mask), "same-name types", nil))
				}
				c.Cover("classes")
			}})
			return us
		},
		RequireCover: func(string) []string {
			var l []string
			for _, t := range zoo.Types {
				l = append(l, "type:"+t.Name)
			}
			return append(l, "classes")
		},
	})
}
