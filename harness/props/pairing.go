package props

import (
	"fmt"
	"reflect"
	"sort"

	rh "verif/harness/refhessian"
	"verif/harness/zoo"
)

// Pairing compares original and decoded values structurally while keeping, across any number of
// values (a whole stream), the pairing original pointer <-> decoded pointer, which must stay a bijection.
type Pairing struct {
	o2d, d2o map[ptrKey]uintptr
	// Containers: maps and non-empty slices are paired by identity as well (same map / same backing array and
	// length in the original <=> same in the decoded value), where both sides have the same Go type
	Containers bool
}

// container pairs the identity of a map or a non-empty slice; "" if consistent.
func (p *Pairing) container(o, d reflect.Value, path string) (string, bool) {
	if !p.Containers || o.Type() != d.Type() || o.Len() == 0 || (o.Kind() != reflect.Map && o.Kind() != reflect.Slice) {
		return "", false
	}
	ok, dk := ptrKey{o.Pointer(), o.Type()}, ptrKey{d.Pointer(), d.Type()}
	if o.Kind() == reflect.Slice {
		// the same backing array with another length is another list
		ok.p, dk.p = ok.p^uintptr(o.Len())<<48, dk.p^uintptr(d.Len())<<48
	}
	if x, seen := p.o2d[ok]; seen {
		if x != dk.p {
			return fmt.Sprintf("%s: a %s sent twice (the same %s over two paths) came back as two distinct ones", path, o.Kind(), o.Kind()), true
		}
		return "", true // already compared
	}
	if _, seen := p.d2o[dk]; seen {
		return fmt.Sprintf("%s: two distinct %ss came back as one", path, o.Kind()), true
	}
	p.o2d[ok], p.d2o[dk] = dk.p, ok.p
	return "", false
}

// ptrKey identifies an object by address and type (a struct and its first field share an address).
type ptrKey struct {
	p uintptr
	t reflect.Type
}

// NewPairing builds an empty pairing.
func NewPairing() *Pairing { return &Pairing{o2d: map[ptrKey]uintptr{}, d2o: map[ptrKey]uintptr{}} }

func unwrapIface(v reflect.Value) reflect.Value {
	for v.IsValid() && v.Kind() == reflect.Interface {
		if v.IsNil() {
			return reflect.Value{}
		}
		v = v.Elem()
	}
	return v
}

func isEmptyish(v reflect.Value) bool {
	if !v.IsValid() {
		return true
	}
	switch v.Kind() {
	case reflect.Ptr, reflect.Interface:
		if v.IsNil() {
			return true
		}
		return isEmptyish(v.Elem())
	case reflect.Slice, reflect.Map:
		return v.Len() == 0
	case reflect.String:
		return v.Len() == 0
	case reflect.Struct:
		if v.Type() == timeT {
			return v.Interface().(interface{ IsZero() bool }).IsZero()
		}
	}
	return false
}

// Cmp returns "" or the first difference.
func (p *Pairing) Cmp(o, d reflect.Value, path string) string {
	o, d = unwrapIface(o), unwrapIface(d)
	if isEmptyish(o) || isEmptyish(d) {
		if isEmptyish(o) && isEmptyish(d) {
			return ""
		}
		return fmt.Sprintf("%s: empty/nil on one side only (orig %v, decoded %v)", path, short(o), short(d))
	}
	switch {
	case o.Kind() == reflect.Ptr && o.Elem().Kind() == reflect.Struct && o.Elem().Type() != timeT:
		if d.Kind() != reflect.Ptr || d.Type() != o.Type() {
			return fmt.Sprintf("%s: decoded %v where %v was sent", path, d.Type(), o.Type())
		}
		op, dp := ptrKey{o.Pointer(), o.Type()}, ptrKey{d.Pointer(), d.Type()}
		if x, ok := p.o2d[op]; ok {
			if x != dp.p {
				return fmt.Sprintf("%s: an object sent twice (by reference) came back as two distinct objects", path)
			}
			return ""
		}
		if _, ok := p.d2o[dp]; ok {
			return fmt.Sprintf("%s: two distinct objects came back as one object", path)
		}
		p.o2d[op], p.d2o[dp] = dp.p, op.p
		return p.fields(o.Elem(), d.Elem(), path)
	case o.Kind() == reflect.Ptr:
		if d.Kind() == reflect.Ptr {
			d = d.Elem()
		}
		return p.Cmp(o.Elem(), d, path)
	case o.Kind() == reflect.Struct && o.Type() != timeT:
		if d.Kind() == reflect.Ptr {
			d = d.Elem()
		}
		if d.Type() != o.Type() {
			return fmt.Sprintf("%s: decoded %v where %v was sent", path, d.Type(), o.Type())
		}
		return p.fields(o, d, path)
	case (o.Kind() == reflect.Slice || o.Kind() == reflect.Array) && o.Type().Elem().Kind() != reflect.Uint8:
		if d.Kind() != reflect.Slice && d.Kind() != reflect.Array {
			return fmt.Sprintf("%s: decoded %v where a list was sent", path, d.Type())
		}
		if o.Len() != d.Len() {
			return fmt.Sprintf("%s: list length %d vs %d", path, o.Len(), d.Len())
		}
		if o.Kind() == reflect.Slice && d.Kind() == reflect.Slice {
			if r, done := p.container(o, d, path); r != "" || done {
				return r
			}
		}
		for i := 0; i < o.Len(); i++ {
			if r := p.Cmp(o.Index(i), d.Index(i), fmt.Sprintf("%s[%d]", path, i)); r != "" {
				return r
			}
		}
		return ""
	case o.Kind() == reflect.Map:
		if d.Kind() != reflect.Map {
			return fmt.Sprintf("%s: decoded %v where a map was sent", path, d.Type())
		}
		if o.Len() != d.Len() {
			return fmt.Sprintf("%s: map size %d vs %d", path, o.Len(), d.Len())
		}
		if r, done := p.container(o, d, path); r != "" || done {
			return r
		}
		okeys := o.MapKeys()
		sort.Slice(okeys, func(a, b int) bool { return fmt.Sprint(okeys[a].Interface()) < fmt.Sprint(okeys[b].Interface()) })
		dkeys := d.MapKeys()
		for _, k := range okeys {
			ka := zoo.NewDenoter(nil).Denote(k.Interface())
			found := false
			for _, dk := range dkeys {
				if zoo.Bisim(ka, zoo.NewDenoter(nil).Denote(dk.Interface()), zoo.BisimOpts{NilEmpty: true}) == "" {
					found = true
					if r := p.Cmp(o.MapIndex(k), d.MapIndex(dk), fmt.Sprintf("%s{%v}", path, k.Interface())); r != "" {
						return r
					}
					break
				}
			}
			if !found {
				return fmt.Sprintf("%s: key %v missing in the decoded map", path, k.Interface())
			}
		}
		return ""
	}
	var a, b *rh.Value
	a, b = zoo.NewDenoter(nil).Denote(o.Interface()), zoo.NewDenoter(nil).Denote(d.Interface())
	if r := zoo.Bisim(a, b, zoo.BisimOpts{NilEmpty: true, IgnoreTypes: true}); r != "" {
		return fmt.Sprintf("%s: %s", path, r)
	}
	return ""
}

func (p *Pairing) fields(o, d reflect.Value, path string) string {
	for i := 0; i < o.NumField(); i++ {
		if r := p.Cmp(o.Field(i), d.Field(i), path+"."+o.Type().Field(i).Name); r != "" {
			return r
		}
	}
	return ""
}

func short(v reflect.Value) string {
	if !v.IsValid() {
		return "nil"
	}
	s := fmt.Sprintf("%v(%v)", v.Type(), v.Interface())
	if len(s) > 60 {
		s = s[:60] + "…"
	}
	return s
}
