package props

import (
	"fmt"
	"strings"
	"time"

	"verif/harness/core"
	"verif/harness/zoo"
)

// largeUnit is the round trip of the large-message family restricted to the cases whose description
// contains one of the words (the scalar properties run the cases built from their kind of value).
func largeUnit(tier string, words ...string) core.Unit {
	return core.Unit{Name: "large", Cost: 60, Run: func(c *core.Ctx) {
		for _, lc := range largeCases(tier) {
			hit := false
			for _, w := range words {
				hit = hit || strings.Contains(lc.desc, w)
			}
			if !hit || !c.Begin() {
				continue
			}
			c.NontrivialN(1)
			c.Res.States++
			c.Res.Transitions++
			c.Outcome("large:" + roundTrip(c, lc.mk(), lc.desc, "large", nil))
		}
		c.Cover("large")
	}}
}

// largeCase is one big message around a structural threshold of the codec (table sizes, block sizes,
// buffer sizes, counter widths): the bounds of the generated families are far below these.
type largeCase struct {
	desc string
	mk   func() interface{}
}

var thresholds = []int{255, 256, 257, 1023, 1024, 1025, 4095, 4096, 4097, 8191, 8192, 8193, 65535, 65536, 65537}

// largeCases returns the family; quick keeps one size beyond each threshold, thorough every size ±1.
func largeCases(tier string) []largeCase {
	var l []largeCase
	sizes := []int{257, 1025, 4097, 8193, 65537}
	if tier == "thorough" {
		sizes = append([]int{}, thresholds...)
		sizes = append(sizes, 131073)
	}
	for _, n := range sizes {
		n := n
		l = append(l,
			largeCase{fmt.Sprintf("[]*Inner of %d distinct pointers, then the first and the last again", n), func() interface{} {
				s := make([]*zoo.Inner, n, n+2)
				for i := range s {
					s[i] = &zoo.Inner{A: int32(i), S: "p"}
				}
				s = append(s, s[0], s[n-1])
				return &zoo.SlPInner{L: s, End: 5}
			}},
			largeCase{fmt.Sprintf("[]float64 of %d", n), func() interface{} {
				s := make([]float64, n)
				for i := range s {
					s[i] = float64(i) + 0.25
				}
				return &zoo.SlF64{L: s, End: 5}
			}},
			largeCase{fmt.Sprintf("[]int64 of %d", n), func() interface{} {
				s := make([]int64, n)
				for i := range s {
					s[i] = int64(i) << 24
				}
				return &zoo.SlI64{L: s, End: 5}
			}},
			largeCase{fmt.Sprintf("[]string of %d", n), func() interface{} {
				s := make([]string, n)
				for i := range s {
					s[i] = fmt.Sprint("s", i)
				}
				return &zoo.SlStr{L: s, End: 5}
			}},
			largeCase{fmt.Sprintf("[]time.Time of %d (millisecond precision)", n), func() interface{} {
				s := make([]time.Time, n)
				for i := range s {
					s[i] = time.UnixMilli(1500000000123 + int64(i)*1000)
				}
				return &zoo.SlTime{L: s, End: 5}
			}},
			largeCase{fmt.Sprintf("[]interface{} of %d ints", n), func() interface{} {
				s := make([]interface{}, n)
				for i := range s {
					s[i] = int32(i)
				}
				return &zoo.SlAny{L: s}
			}},
			largeCase{fmt.Sprintf("map[string]int32 of %d entries", n), func() interface{} {
				m := make(map[string]int32, n)
				for i := 0; i < n; i++ {
					m[fmt.Sprint("k", i)] = int32(i)
				}
				return &zoo.MpStrI32{M: m, End: 5}
			}},
		)
	}
	// every pointer of a long list a second time: a back-reference to every ordinal of the message
	reps := []int{300, 5000, 70000}
	if tier == "thorough" {
		reps = []int{300, 2100, 5000, 70000, 270000, 530000}
	}
	for _, n := range reps {
		n := n
		l = append(l, largeCase{fmt.Sprintf("[]*Inner of %d distinct pointers, then all of them again (a reference to every ordinal)", n), func() interface{} {
			s := make([]*zoo.Inner, n, 2*n)
			for i := range s {
				s[i] = &zoo.Inner{A: int32(i)}
			}
			s = append(s, s...)
			return &zoo.SlPInner{L: s, End: 5}
		}})
	}
	// many non-empty maps in one message (any per-map leak of a counter or table shows)
	maps := []int{1000, 12000}
	if tier == "thorough" {
		maps = []int{1000, 5000, 10000, 12000, 20000, 70000}
	}
	for _, n := range maps {
		n := n
		l = append(l, largeCase{fmt.Sprintf("%d structs each with a one-entry map", n), func() interface{} {
			s := make([]zoo.MapHolder, n)
			for i := range s {
				s[i] = zoo.MapHolder{M: map[string]int32{"k": int32(i)}, N: int32(i)}
			}
			return &zoo.SlMapHolder{L: s, End: 5}
		}})
	}
	// reference ordinals beyond every width of the ref form
	ords := []int{262200}
	if tier == "thorough" {
		ords = []int{262143, 262144, 262145, 524300}
	}
	for _, n := range ords {
		n := n
		l = append(l, largeCase{fmt.Sprintf("[]*Inner of %d distinct pointers, then the last three again (reference ordinals > %d)", n, n-3), func() interface{} {
			s := make([]*zoo.Inner, n, n+3)
			for i := range s {
				s[i] = &zoo.Inner{A: int32(i)}
			}
			s = append(s, s[n-1], s[n-2], s[n-3])
			return &zoo.SlPInner{L: s, End: 5}
		}})
	}
	// cumulative byte offsets: n nine-octet values after m one-octet ones puts a nine-octet value at
	// every offset around each power-of-two buffer size
	for _, b := range []int{4096, 8192, 16384, 65536} {
		for m := 0; m <= 8; m++ {
			for dn := -1; dn <= 1; dn++ {
				m, n := m, b/9+dn
				l = append(l,
					largeCase{fmt.Sprintf("[]int64: %d one-octet values then %d nine-octet values (offset %d)", m, n, b), func() interface{} {
						s := make([]int64, 0, m+n)
						for i := 0; i < m; i++ {
							s = append(s, int64(i))
						}
						for i := 0; i < n; i++ {
							s = append(s, (int64(1)<<40)+int64(i))
						}
						return &zoo.SlI64{L: s, End: 5}
					}},
					largeCase{fmt.Sprintf("[]float64: %d one-octet values then %d nine-octet values (offset %d)", m, n, b), func() interface{} {
						s := make([]float64, 0, m+n)
						for i := 0; i < m; i++ {
							s = append(s, float64(i%2))
						}
						for i := 0; i < n; i++ {
							s = append(s, 0.1+float64(i))
						}
						return &zoo.SlF64{L: s, End: 5}
					}},
				)
			}
		}
	}
	// one value of every scalar kind at every offset around the 4096 and 8192 buffer boundaries
	p := &zoo.Inner{A: 7, S: "shared"}
	for _, base := range []int{4096, 8192} {
		for pad := base - 110; pad <= base+6; pad++ {
			pad := pad
			l = append(l, largeCase{fmt.Sprintf("Boundary: pad %d then int, long, double, date, string, binary, pointer, same pointer, 5000-char tail", pad), func() interface{} {
				return &zoo.Boundary{Pad: strings.Repeat("p", pad), I: 0x12345678, L: 0x1122334455667788, F: 0.1,
					T: time.UnixMilli(1600000000123), S: "héllo", B: []byte{1, 2, 3, 4, 5}, P: p, Q: p, Tail: strings.Repeat("t", 5000)}
			}})
			// the same with strings that END in a multi-byte character (pad, value and tail)
			l = append(l, largeCase{fmt.Sprintf("Boundary: pad of %d chars ending in a 3-byte character, then the scalars with a string ending in a 2-byte character, tail ending in a 4-byte character", pad), func() interface{} {
				return &zoo.Boundary{Pad: strings.Repeat("p", pad-1) + "中", I: -7, L: 3000000, F: 2.5,
					T: time.UnixMilli(1600000000000), S: "Zoë", B: []byte{9}, P: p, Q: p, Tail: strings.Repeat("t", 4999) + "😀"}
			}})
		}
	}
	return l
}
