package props

import (
	"fmt"
	"reflect"
	"sort"

	hessian "github.com/vogo/gohessian"

	"verif/harness/core"
	"verif/harness/explore"
	"verif/harness/zoo"
)

// staticClosure walks a Go type and returns the struct types and (non-byte) slice types a value of it can contain.
func staticClosure(t reflect.Type) (structs, slices []reflect.Type) {
	seen := map[reflect.Type]bool{}
	var walk func(t reflect.Type)
	walk = func(t reflect.Type) {
		if seen[t] {
			return
		}
		seen[t] = true
		switch t.Kind() {
		case reflect.Ptr:
			walk(t.Elem())
		case reflect.Struct:
			if t == timeT {
				return
			}
			structs = append(structs, t)
			for i := 0; i < t.NumField(); i++ {
				walk(t.Field(i).Type)
			}
		case reflect.Slice, reflect.Array:
			if t.Elem().Kind() == reflect.Uint8 {
				return
			}
			slices = append(slices, t)
			walk(t.Elem())
		case reflect.Map:
			walk(t.Key())
			walk(t.Elem())
		}
	}
	walk(t)
	return
}

var codecNamable = reflect.TypeOf((*hessian.CodecNamable)(nil)).Elem()

func customName(t reflect.Type) (string, bool) {
	if t.Implements(codecNamable) {
		return reflect.Zero(t).Interface().(hessian.CodecNamable).HessianCodecName(), true
	}
	return "", false
}

// privateResults: the maps an extraction returns belong to the caller. They are emptied and filled with junk
// here (working copies are taken first); a second extraction from the same witness must return what the first did.
func privateResults(w interface{}, tm map[string]reflect.Type, nm map[string]string) string {
	tmCopy, nmCopy := copyTypeMap(tm), copyNameMap(nm)
	for k := range tm {
		delete(tm, k)
	}
	for k := range nm {
		delete(nm, k)
	}
	tm["verif.Junk"], nm["verif.Junk"] = reflect.TypeOf(0), "junk"
	var tm2 map[string]reflect.Type
	var nm2 map[string]string
	if p := core.Catch(func() { tm2, nm2 = hessian.ExtractTypeNameMap(w) }); p != "" {
		return "second extraction panics: " + p
	}
	same := len(tm2) == len(tmCopy) && len(nm2) == len(nmCopy)
	for k, v := range tmCopy {
		same = same && tm2[k] == v
	}
	for k, v := range nmCopy {
		same = same && nm2[k] == v
	}
	// hand the caller its content back
	delete(tm, "verif.Junk")
	delete(nm, "verif.Junk")
	for k, v := range tmCopy {
		tm[k] = v
	}
	for k, v := range nmCopy {
		nm[k] = v
	}
	if !same {
		return "a second extraction from the same witness returns other maps after the caller changed the first result (results are shared between calls)"
	}
	return ""
}

// closureCheck verifies that the maps are closed and consistent for type t.
func closureCheck(t reflect.Type, tm map[string]reflect.Type, nm map[string]string) string {
	structs, slices := staticClosure(t)
	for _, s := range structs {
		gn := zoo.GoTypeName(s)
		wn, ok := nm[gn]
		if !ok {
			return fmt.Sprintf("struct type %v is missing from the name map", s)
		}
		if cn, has := customName(s); has && wn != cn {
			return fmt.Sprintf("struct type %v declares the wire name %q but the name map says %q", s, cn, wn)
		}
		if got, ok := tm[wn]; !ok || got != s {
			return fmt.Sprintf("the type map does not map wire name of struct type %v back to it", s)
		}
	}
	for _, l := range slices {
		gn := zoo.GoTypeName(l)
		wn, ok := nm[gn]
		if !ok {
			return fmt.Sprintf("slice type %v is missing from the name map", l)
		}
		if cn, has := customName(l); has {
			if wn != cn {
				return fmt.Sprintf("slice type %v declares the wire name %q but the name map says %q", l, cn, wn)
			}
			if got, ok := tm[cn]; !ok || got != l {
				return fmt.Sprintf("the type map does not map the declared wire name of slice type %v back to it", l)
			}
			continue
		}
		got, ok := tm[wn]
		if !ok {
			return fmt.Sprintf("the type map has no entry for the wire name of slice type %v", l)
		}
		// several Go slice types may share one wire name ([]int8 and []int32 are both "[int"): any of them is consistent
		if got.Kind() != reflect.Slice || nm[zoo.GoTypeName(got)] != wn {
			return fmt.Sprintf("the type map maps the wire name of slice type %v to an unrelated type", l)
		}
	}
	return ""
}

func init() {
	core.Register(&core.Prop{
		ID: "C16", Level: "model_checking",
		Rule:        "Exhaustive enumeration: every zoo type (incl. recursive, mutually recursive, embedded, custom-named, slices of slices, named map) x every witness shape within k deviations of the pointer/slice/map/interface slots (nil, empty, populated, aliased and cyclic; scalars at default), plus the zero value and a pointer to it, through ExtractTypeNameMap, TypeMapFrom, NameMapFrom and TypeMapOf. Oracle: (i) the call returns (a stack overflow kills the worker and is attributed to the case); (ii) closure against an independent static type walk: every struct and non-byte slice type reachable from the type is in the name map, under its custom name where declared, and the type map maps that wire name back to the Go type; TypeMapOf contains every reachable struct type; (iii) sufficiency: with the maps of witness w every other value u of the type (<=1 deviation) round-trips exactly as in C01. Non-trivial = witness or u deviates; distinct by (type, witness, u).",
		Assumptions: []string{"interface{} slots are outside the static closure (their dynamic types cannot be known from the type)", "slice types sharing one wire name may be mapped to any of them"},
		Units: func(tier string) []core.Unit {
			var us []core.Unit
			for i := range zoo.Types {
				t := &zoo.Types[i]
				wk := tierPick(tier, 3, 4)
				us = append(us, core.Unit{Name: "extract:" + t.Name, Cost: 10, Run: func(c *core.Ctx) {
					// the other values u
					var others []*ZooCase
					forEachZooRaw(core.NewCtx("", "", ""), t, 1, false, func(zc *ZooCase) { others = append(others, zc) })
					type wit struct {
						v    interface{}
						desc string
					}
					var wits []wit
					wits = append(wits, wit{reflect.Zero(t.Type).Interface(), "zero value"})
					if t.Type.Kind() == reflect.Struct {
						wits = append(wits, wit{reflect.New(t.Type).Interface(), "pointer to zero value (&T{})"})
					}
					ex := &explore.Explorer{Bound: wk}
					ex.Case = func(ch *explore.Chooser) {
						g := zoo.NewGen(ch)
						g.ShapeOnly = true
						v := g.Make(t.Type)
						wits = append(wits, wit{v, "witness " + g.Describe()})
					}
					ex.Run(nil)
					c.Res.States += ex.Stats.Executions
					c.Res.Transitions += ex.Stats.Transitions
					for _, w := range wits {
						if !c.Begin() {
							continue
						}
						c.Nontrivial(t.Name + " " + w.desc)
						rep := func(stage, kind, msg string) {
							c.Report(&core.Violation{Stage: stage, Kind: kind, Shape: t.Name, Message: msgStrict(msg), Case: t.Name + " " + w.desc})
						}
						var tm, tm2, tmOf map[string]reflect.Type
						var nm, nm2 map[string]string
						if p := core.Catch(func() {
							tm, nm = hessian.ExtractTypeNameMap(w.v)
							tm2 = hessian.TypeMapFrom(w.v)
							nm2 = hessian.NameMapFrom(w.v)
							tmOf = hessian.TypeMapOf(t.Type)
						}); p != "" {
							rep("extract", "panic", p)
							continue
						}
						if len(tm2) != len(tm) || len(nm2) != len(nm) {
							rep("extract", "inconsistent", "TypeMapFrom / NameMapFrom disagree with ExtractTypeNameMap")
							continue
						}
						if r := closureCheck(t.Type, tm, nm); r != "" {
							// classify without the concrete type in the signature
							kind := "not-closed"
							rep("closure", kind, r)
							continue
						}
						if r := privateResults(w.v, tm, nm); r != "" {
							rep("extract", "shared-result", r)
							continue
						}
						structs, _ := staticClosure(t.Type)
						for _, s := range structs {
							cn, has := customName(s)
							if got, ok := tmOf[s.Name()]; !(ok && got == s) && !(has && tmOf[cn] == s) {
								rep("closure", "TypeMapOf", fmt.Sprintf("TypeMapOf(%v) lacks struct type %v", t.Type, s))
							}
						}
						c.Outcome("closed")
						// sufficiency
						for _, u := range others {
							if !c.Begin() {
								continue
							}
							c.Res.Transitions++
							out := roundTripMaps(c, u.Val, fmt.Sprintf("maps from %s %s; value %s", t.Name, w.desc, u.Desc), "sufficiency:"+t.Name, u.Choices, copyTypeMap(tm), copyNameMap(nm))
							c.Outcome("sufficiency:" + out)
						}
						if c.WantSample() {
							var keys []string
							for k := range nm {
								keys = append(keys, k+"->"+nm[k])
							}
							sort.Strings(keys)
							if len(keys) > 6 {
								keys = keys[:6]
							}
							c.Sample(fmt.Sprintf("%s %s: name map %v…", t.Name, w.desc, keys))
						}
					}
					c.Cover("type:" + t.Name)
				}})
			}
			// special witnesses beyond the generated shapes: a chain of 80 distinct struct types, and values
			// holding pointers into the inside of other values they hold (same address, different type)
			us = append(us, core.Unit{Name: "special", Cost: 5, Run: func(c *core.Ctx) {
				chainFull := func() interface{} {
					root := reflect.New(reflect.TypeOf(zoo.Ch00{}))
					cur := root
					for d := 0; d < zoo.ChainDepth; d++ {
						cur.Elem().Field(0).SetInt(int64(d + 1))
						if cur.Elem().NumField() < 2 {
							break
						}
						nx := reflect.New(cur.Elem().Field(1).Type().Elem())
						cur.Elem().Field(1).Set(nx)
						cur = nx
					}
					return root.Interface()
				}
				interior := func(order int) interface{} {
					e := &zoo.Embedded{Base: zoo.Base{Id: 4, Name: "b"}, X: 5}
					l := []zoo.Inner{{A: 1, S: "x"}, {A: 2, S: "y"}}
					v := &zoo.Interior{Whole: e, List: l, Again: l, End: 3}
					if order&1 != 0 {
						v.First = &e.Base
					}
					if order&2 != 0 {
						v.Elem = &l[0]
					}
					return v
				}
				type sp struct {
					name   string
					typ    reflect.Type
					wits   []interface{}
					others []interface{}
				}
				selfList := func() interface{} {
					l := make([]interface{}, 2)
					l[0], l[1] = int32(1), l
					return &zoo.SlAny{L: l, End: 1}
				}
				selfMap := func() interface{} {
					m := map[interface{}]interface{}{"k": int32(1)}
					m["self"] = m
					return &zoo.MpAny{M: m, End: 1}
				}
				listMapList := func() interface{} {
					l := make([]interface{}, 1)
					l[0] = map[string]interface{}{"back": l, "in": &zoo.Inner{A: 1}}
					return &zoo.SlAny{L: l, End: 1}
				}
				sps := []sp{
					{"untyped containers that contain themselves", reflect.TypeOf(zoo.SlAny{}), []interface{}{selfList(), listMapList()}, []interface{}{&zoo.SlAny{L: []interface{}{int32(1)}, End: 2}}},
					{"untyped map that contains itself", reflect.TypeOf(zoo.MpAny{}), []interface{}{selfMap()}, []interface{}{&zoo.MpAny{M: map[interface{}]interface{}{"k": int32(1)}, End: 2}}},
					{"chain of 80 struct types", reflect.TypeOf(zoo.Ch00{}), []interface{}{zoo.Ch00{}, &zoo.Ch00{}, chainFull()}, []interface{}{chainFull(), &zoo.Ch00{V: 1}}},
					{"interior pointers", reflect.TypeOf(zoo.Interior{}), []interface{}{zoo.Interior{}, interior(0), interior(1), interior(2), interior(3)}, []interface{}{interior(0), interior(1), interior(2), interior(3)}},
				}
				for _, s := range sps {
					for wi, w := range s.wits {
						if !c.Begin() {
							continue
						}
						desc := fmt.Sprintf("%s, witness #%d (%T)", s.name, wi, w)
						c.Nontrivial(desc)
						rep := func(stage, kind, msg string) {
							c.Report(&core.Violation{Stage: stage, Kind: kind, Shape: s.name, Message: msgStrict(msg), Case: desc})
						}
						var tm, tmOf map[string]reflect.Type
						var nm map[string]string
						if p := core.Catch(func() {
							tm, nm = hessian.ExtractTypeNameMap(w)
							tmOf = hessian.TypeMapOf(s.typ)
						}); p != "" {
							rep("extract", "panic", p)
							continue
						}
						if r := closureCheck(s.typ, tm, nm); r != "" {
							rep("closure", "not-closed", r)
							continue
						}
						if r := privateResults(w, tm, nm); r != "" {
							rep("extract", "shared-result", r)
							continue
						}
						structs, _ := staticClosure(s.typ)
						for _, st := range structs {
							if got, ok := tmOf[st.Name()]; !(ok && got == st) {
								rep("closure", "TypeMapOf", fmt.Sprintf("TypeMapOf(%v) lacks struct type %v", s.typ, st))
								break
							}
						}
						c.Outcome("closed")
						for ui, u := range s.others {
							if !c.Begin() {
								continue
							}
							c.Res.Transitions++
							out := roundTripMaps(c, u, fmt.Sprintf("maps from %s; value #%d", desc, ui), "sufficiency:"+s.name, nil, copyTypeMap(tm), copyNameMap(nm))
							c.Outcome("sufficiency:" + out)
						}
					}
				}
				c.Cover("special")
			}})
			return us
		},
		RequireCover: func(string) []string {
			l := []string{"special"}
			for _, t := range zoo.Types {
				l = append(l, "type:"+t.Name)
			}
			return l
		},
	})
}
