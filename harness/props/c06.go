package props

import (
	"fmt"
	"reflect"
	"runtime"
	"strings"
	"sync"

	hessian "github.com/vogo/gohessian"

	"verif/harness/core"
	"verif/harness/guard"
	"verif/harness/zoo"
)

// stream alphabet types
type SA struct {
	X int32
	S string
}
type SB struct {
	P *SA
	N int32
	Q *SA
}

const c06Alphabet = 14
const opRead = c06Alphabet

var c06Names = []string{"int32", "int64", `""`, `"s"`, "[]byte", "time", "nil", "[]int32", "[]interface{}", "NamedMap", "SA(by value)", "a1(*SA)", "*SB{P:a1}", "*Many3"}

// newAlphabet builds fresh instances (pointers are per-run objects).
func newAlphabet() []interface{} {
	a1 := &SA{X: 41, S: "a1"}
	return []interface{}{
		int32(5), int64(1) << 40, "", "s", []byte{1, 2}, zoo.RefTime, nil, []int32{1, 2}, []interface{}{int32(1), "x"}, zoo.NamedMap{"k": "v"},
		SA{X: 7, S: "val"}, a1, &SB{P: a1, N: 2, Q: &SA{X: 9}},
		&zoo.Many3{F1: zoo.C1{V: 1}, L: []zoo.C2{{V: 2}, {V: 3}}, P: []*zoo.C1{{V: 4}}, End: 5},
	}
}

var (
	c06tm   map[string]reflect.Type
	c06nm   map[string]string
	c06once sync.Once
)

func c06Maps() {
	c06once.Do(func() { c06tm, c06nm = unionMaps(newAlphabet()...) })
}

type streamRun struct {
	api     int
	objs    []interface{}
	enc     *hessian.Encoder
	dec     *hessian.Decoder
	wser    hessian.Serializer
	rser    hessian.Serializer
	w       *guard.Writer
	rd      *guard.Reader
	ends    []int
	written []int
	reads   int
	pair    *Pairing
	nm      map[string]string
	tm      map[string]reflect.Type
}

func newStreamRun(api int) *streamRun {
	c06Maps()
	r := &streamRun{api: api, objs: newAlphabet(), w: guard.NewWriter(), rd: guard.NewReader(nil), pair: NewPairing(), nm: copyNameMap(c06nm), tm: copyTypeMap(c06tm)}
	r.rd.Budget = 1 << 30
	if api == 0 {
		r.enc = hessian.NewEncoder(r.w, r.nm)
		r.dec = hessian.NewDecoder(r.rd, r.tm)
	} else {
		r.wser = hessian.NewSerializer(r.tm, r.nm)
		r.rser = hessian.NewSerializer(r.tm, r.nm)
	}
	return r
}

func (r *streamRun) enabled(op int) bool {
	if op == opRead {
		return r.reads < len(r.written)
	}
	return len(r.written)-r.reads < 3 // reads lag writes by at most 2
}

// step performs one operation and returns a violation description (stage, kind, message) or "".
func (r *streamRun) step(op int) (stage, kind, msg string) {
	if op != opRead {
		var err error
		p := core.Catch(func() {
			switch {
			case r.api == 0:
				err = r.enc.WriteObject(r.objs[op])
			case len(r.written) == 0:
				err = r.wser.WriteTo(r.w, r.objs[op])
			default:
				err = r.wser.Write(r.objs[op])
			}
		})
		if p != "" {
			return "write", "panic", p
		}
		if err != nil {
			return "write", "error", err.Error()
		}
		r.written = append(r.written, op)
		r.ends = append(r.ends, len(r.w.Buf))
		return "", "", ""
	}
	// read
	r.rd.Data = r.w.Buf
	var val interface{}
	var err error
	p := core.Catch(func() {
		switch {
		case r.api == 0:
			val, err = r.dec.ReadObject()
		case r.reads == 0:
			val, err = r.rser.ReadFrom(r.rd)
		default:
			val, err = r.rser.Read()
		}
	})
	i := r.reads
	r.reads++
	if p != "" {
		return "read", "panic", p
	}
	if err != nil {
		return "read", "error", err.Error()
	}
	want := r.objs[r.written[i]]
	if val != nil {
		t := reflect.TypeOf(val)
		if t == reflect.TypeOf(reflect.Value{}) || (strings.HasSuffix(t.String(), "_refHolder")) || (t.Kind() == reflect.Ptr && t.Elem().PkgPath() == "github.com/vogo/gohessian" && t.Elem().Name() != "" && t.Elem().Name()[0] == '_') {
			return "read", "internal-carrier", fmt.Sprintf("read returned the internal carrier type %v", t)
		}
	}
	if d := r.pair.Cmp(reflect.ValueOf(want), reflect.ValueOf(val), "$"); d != "" {
		if i := strings.Index(d, ": "); i > 0 {
			return "read", "mismatch", "value #k differs: " + d[i+2:]
		}
		return "read", "mismatch", d
	}
	if val != nil {
		if wt, gt := expectTop(want, r.tm, r.nm), reflect.TypeOf(val); wt != nil && wt != gt {
			return "read", "type", fmt.Sprintf("read returned %v, expected %v", gt, wt)
		}
	}
	if r.rd.Pos != r.ends[i] {
		rel := "fewer"
		if r.rd.Pos > r.ends[i] {
			rel = "more"
		}
		return "read", "framing", fmt.Sprintf("read consumed %s bytes than the value occupies (offset %d, value ends at %d)", rel, r.rd.Pos, r.ends[i])
	}
	return "", "", ""
}

func (r *streamRun) key() string {
	var sb strings.Builder
	var e *hessian.Encoder
	var d *hessian.Decoder
	if r.api == 0 {
		e, d = r.enc, r.dec
	} else {
		e, _ = hessian.VerifSerializerParts(r.wser)
		_, d = hessian.VerifSerializerParts(r.rser)
	}
	cls, _, _ := hessian.VerifEncoderState(e)
	cnt, byAddr := hessian.VerifEncoderRefs(e)
	fmt.Fprintf(&sb, "E%v#%d", cls, cnt)
	for i, o := range r.objs {
		if o != nil && reflect.TypeOf(o).Kind() == reflect.Ptr {
			if n, ok := byAddr[reflect.ValueOf(o).Pointer()]; ok {
				fmt.Fprintf(&sb, " o%d=%d", i, n)
			}
		}
	}
	ty, dc, rk, _ := hessian.VerifDecoderState(d)
	fmt.Fprintf(&sb, "|D%v%v%v|P%v", ty, dc, rk, r.written[r.reads:])
	return sb.String()
}

func histString(h []int) string {
	var l []string
	for _, op := range h {
		if op == opRead {
			l = append(l, "read")
		} else {
			l = append(l, "write "+c06Names[op])
		}
	}
	return strings.Join(l, "; ")
}

// runHistory replays a history on a fresh run; it reports the first violation.
func runHistory(c *core.Ctx, api int, h []int) (*streamRun, bool) {
	return runHistoryEnv(c, api, h, false)
}

// runHistoryEnv: with eofAtEnd the reader returns io.EOF together with the last bytes of the stream (in the
// Read call that delivers them), which only the last operation of the history can observe.
func runHistoryEnv(c *core.Ctx, api int, h []int, eofAtEnd bool) (*streamRun, bool) {
	return runHistoryReader(c, api, h, eofAtEnd, 0)
}

// runHistoryReader: maxChunk > 0 makes every Read call of the stream's reader return at most that many bytes.
func runHistoryReader(c *core.Ctx, api int, h []int, eofAtEnd bool, maxChunk int) (*streamRun, bool) {
	r := newStreamRun(api)
	r.rd.MaxChunk = maxChunk
	for i, op := range h {
		r.rd.EOFWithData = eofAtEnd && i == len(h)-1 && op == opRead
		if st, k, m := r.step(op); st != "" {
			shape := "Encoder/Decoder"
			if api == 1 {
				shape = "Serializer"
			}
			c.Report(&core.Violation{Stage: st, Kind: k, Shape: shape, Message: msgStrict(m), Case: fmt.Sprintf("%s stream: %s  (fails at step %d)", shape, histString(h), i+1), Choices: h})
			return r, false
		}
	}
	return r, true
}

func init() {
	core.Register(&core.Prop{
		ID: "C06", Level: "model_checking",
		Rule:        "Explicit-state breadth-first search over histories on one stream: alphabet of 14 values (int, long, empty and non-empty string, bytes, date, nil, typed list, untyped list, named map, struct by value, a pointer a1, a struct containing a1 - so that a repeat of a1 is a back-reference to an object sent earlier - and a 3-class struct) written through one encoder, reads through one decoder lagging by 0..2 values, through both API pairs (Encoder.WriteObject/Decoder.ReadObject and Serializer.WriteTo+Write/ReadFrom+Read); successor = replay of the history on fresh instances + one operation; states are deduplicated by a canonical form of the private per-stream tables (class lists, reference counter and registered alphabet pointers, type list, reference list types) read through the verif hooks, plus the pending values. Depth 8 (quick) / 10 (thorough); plus the 50-step histories x^50 and (x y)^25 for every ordered pair. Oracle after the i-th read: value equals the i-th written with stream-wide pointer pairing (a repeat of a1 is the same pointer), the no-read-ahead reader's offset equals the encoder offset after the i-th write, the dynamic type is a documented one. Non-trivial = history with at least one read of a container; distinct = distinct canonical states.",
		Assumptions: []string{"canonical state = private tables + pending values; merging states with equal canonical form assumes equal futures (tables are the only per-stream state)", "values are drawn from those that pass C01 alone"},
		Units: func(tier string) []core.Unit {
			depth := tierPick(tier, 8, 10)
			var us []core.Unit
			for api := 0; api < 2; api++ {
				for first := 0; first < c06Alphabet; first++ {
					api, first := api, first
					us = append(us, core.Unit{Name: fmt.Sprintf("bfs:api%d:first=%s", api, c06Names[first]), Cost: 10, Run: func(c *core.Ctx) {
						seen := map[string]bool{}
						frontier := [][]int{{first}}
						if !c.Begin() {
							return
						}
						if r, ok := runHistory(c, api, frontier[0]); ok {
							seen[r.key()] = true
						} else {
							return
						}
						for d := 1; d < depth && len(frontier) > 0; d++ {
							var next [][]int
							for _, h := range frontier {
								base, _ := runHistory(core.NewCtx("", "", ""), api, h)
								for op := 0; op <= opRead; op++ {
									if !base.enabled(op) {
										continue
									}
									if !c.Begin() {
										continue
									}
									nh := append(append([]int{}, h...), op)
									c.Res.Transitions++
									r, ok := runHistory(c, api, nh)
									if !ok {
										continue
									}
									c.Outcome(fmt.Sprintf("ok-depth-%d", len(nh)))
									k := r.key()
									if !seen[k] {
										seen[k] = true
										next = append(next, nh)
										if op == opRead {
											c.Nontrivial(k)
										}
										if c.WantSample() && len(nh) == 4 && op == opRead {
											c.Sample(histString(nh))
										}
									}
								}
							}
							frontier = next
						}
						c.Res.States += int64(len(seen))
						c.Res.ImplTraces = c.Res.Evaluations
						c.Cover(fmt.Sprintf("api%d", api))
					}})
				}
			}
			for api := 0; api < 2; api++ {
				api := api
				us = append(us, core.Unit{Name: fmt.Sprintf("long:api%d", api), Cost: 40, Run: func(c *core.Ctx) {
					for x := 0; x < c06Alphabet; x++ {
						for y := 0; y < c06Alphabet; y++ {
							for _, lag := range []int{0, 2} {
								if !c.Begin() {
									continue
								}
								var h []int
								pend := 0
								for i := 0; i < 50; i++ {
									if i%2 == 0 {
										h = append(h, x)
									} else {
										h = append(h, y)
									}
									pend++
									if pend > lag {
										h = append(h, opRead)
										pend--
									}
								}
								for ; pend > 0; pend-- {
									h = append(h, opRead)
								}
								c.Res.Transitions += int64(len(h))
								c.Res.States++
								c.NontrivialN(1)
								if _, ok := runHistory(c, api, h); ok {
									c.Outcome("ok-long")
								}
								if _, ok := runHistoryEnv(c, api, h, true); ok {
									c.Outcome("ok-long-eof-with-last-bytes")
								}
								for _, chunk := range []int{1, 3} {
									if _, ok := runHistoryReader(c, api, h, false, chunk); ok {
										c.Outcome("ok-long-short-reads")
									}
								}
							}
						}
					}
					c.Cover("long")
					c.Sample("(write a1(*SA); write *SB{P:a1})^25 with reads lagging by 2")
				}})
			}
			// long streams of temporary values with the garbage collector run between writes: an object that
			// was written and has since been freed must not be mistaken for a later object at the same address
			for api := 0; api < 2; api++ {
				api := api
				us = append(us, core.Unit{Name: fmt.Sprintf("gc-stream:api%d", api), Cost: 40, Run: func(c *core.Ctx) {
					for _, kind := range []string{"struct", "list", "map", "20 classes"} {
						if !c.Begin() {
							continue
						}
						c.NontrivialN(1)
						r := newStreamRun(api)
						for _, mk := range classVals {
							t2, n2, _ := Maps(mk(0))
							for k2, v2 := range t2 {
								r.tm[k2] = v2
							}
							for k2, v2 := range n2 {
								r.nm[k2] = v2
							}
						}
						n := tierPick(tier, 12000, 70000)
						bad := ""
						for i := 0; i < n && bad == ""; i++ {
							var v interface{}
							switch kind {
							case "struct":
								v = &SA{X: int32(i), S: "tmp"}
							case "list":
								v = []int32{int32(i), int32(i + 1)}
							case "map":
								v = zoo.NamedMap{"k": fmt.Sprint(i)}
							default:
								v = classVals[i%20](int32(i))
							}
							// the temporary value takes slot 0 of the alphabet; the previous one becomes garbage
							r.objs[0] = v
							if st, k, m := r.step(0); st != "" {
								bad = fmt.Sprintf("write #%d: %s/%s %s", i, st, k, m)
								break
							}
							r.pair = NewPairing() // addresses of freed temporaries may be reused: pair per value
							if st, k, m := r.step(opRead); st != "" {
								bad = fmt.Sprintf("value #%d of the stream: %s/%s %s", i, st, k, m)
							}
							if i%4 == 3 && (i < 1500 || i%64 == 63) {
								runtime.GC()
							}
						}
						c.Res.States++
						c.Res.Transitions += int64(2 * n)
						if bad != "" {
							c.Report(&core.Violation{Stage: "gc-stream", Kind: "mismatch", Shape: kind, Message: msgStrict(bad), Case: fmt.Sprintf("stream of %d temporary %s values, runtime.GC() after every 4th write (every 64th after the first 1500)", n, kind)})
						} else {
							c.Outcome("gc-stream-ok")
						}
					}
					c.Cover("gc-stream")
				}})
			}
			return us
		},
		RequireCover: func(string) []string { return []string{"api0", "api1", "long", "gc-stream"} },
	})
}
