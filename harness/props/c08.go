package props

import (
	"bytes"
	"fmt"
	"math"

	"verif/harness/core"
	rh "verif/harness/refhessian"
)

// FloatPos carries a double at every non-top position.
type FloatPos struct {
	F64 float64
	F32 float32
	L64 []float64
	L32 []float32
	M   map[string]float64
	End int32
}

func dblShape(v float64) string {
	switch {
	case math.IsNaN(v):
		return "NaN"
	case math.IsInf(v, 0):
		return "Inf"
	case v == 0 && math.Signbit(v):
		return "-0"
	case v == 0:
		return "zero"
	case v == 1:
		return "one"
	case v == math.Trunc(v) && v >= -128 && v <= 127:
		return "int8-integral"
	case v == math.Trunc(v) && v >= -32768 && v <= 32767:
		return "int16-integral"
	case v == math.Trunc(v) && math.Abs(v) < 1<<53:
		return "larger-integral"
	case math.Abs(v) < 2.2250738585072014e-308:
		return "subnormal"
	case float64(float32(v)) == v:
		return "float32-exact"
	}
	return "general"
}

func sameNumber(a, b float64) bool {
	return a == b || (math.IsNaN(a) && math.IsNaN(b))
}

func checkDouble(c *core.Ctx, s *sweepCodec, v float64, scratch []byte) {
	b, out, err := s.round(v)
	if err != nil {
		c.Report(&core.Violation{Stage: "roundtrip", Kind: "error", Shape: dblShape(v), Message: msgClass(err.Error()), Case: fmt.Sprintf("float64 %v (bits %016x)", v, math.Float64bits(v))})
		return
	}
	o, ok := out.(float64)
	if !ok || !sameNumber(o, v) {
		c.Report(&core.Violation{Stage: "decode", Kind: "mismatch", Shape: dblShape(v), Message: "decoded double is a different number", Case: fmt.Sprintf("float64 %v (bits %016x)", v, math.Float64bits(v)), Detail: fmt.Sprintf("bytes %x decoded %T(%v)", b, out, out)})
		return
	}
	if math.IsNaN(v) {
		if len(b) != 5 && len(b) != 9 {
			c.Report(&core.Violation{Stage: "encode", Kind: "form", Shape: "NaN", Message: fmt.Sprintf("NaN in %d octets", len(b)), Case: fmt.Sprintf("bits %016x", math.Float64bits(v))})
		}
		return
	}
	want := rh.AppendDouble(scratch[:0], v, rh.ShortestDouble(v))
	if v == 0 {
		want = append(scratch[:0], 0x5b)
	}
	if !bytes.Equal(b, want) {
		c.Report(&core.Violation{Stage: "encode", Kind: "form", Shape: dblShape(v), Message: fmt.Sprintf("not the shortest exact double form: %d octets, shortest is %d", len(b), len(want)), Case: fmt.Sprintf("float64 %v (bits %016x)", v, math.Float64bits(v)), Detail: fmt.Sprintf("got %x want %x", b, want)})
	}
}

// checkFloat32Typed passes the Go value as a float32 (its own branch of the encoder): the bytes must be exactly
// those written for the double float64(f) - which checkDouble has just decoded through every reader behaviour
// and compared with the shortest exact form - so nothing needs to be decoded again.
func checkFloat32Typed(c *core.Ctx, s *sweepCodec, f float32, scratch []byte) {
	v := float64(f)
	s.buf.Reset()
	err := s.enc.WriteTo(&s.buf, v)
	want := append(scratch[:0], s.buf.Bytes()...)
	s.buf.Reset()
	if err == nil {
		err = s.enc.WriteTo(&s.buf, f)
	}
	cs := fmt.Sprintf("float32-typed value %v (bits %08x)", f, math.Float32bits(f))
	if err != nil {
		c.Report(&core.Violation{Stage: "encode", Kind: "error", Shape: "float32-typed " + dblShape(v), Message: msgClass(err.Error()), Case: cs})
		return
	}
	if b := s.buf.Bytes(); !bytes.Equal(b, want) {
		c.Report(&core.Violation{Stage: "encode", Kind: "form", Shape: "float32-typed " + dblShape(v), Message: fmt.Sprintf("a float32 is not written as the double it denotes: %d octets instead of %d", len(b), len(want)), Case: cs, Detail: fmt.Sprintf("got %x want %x", b, want)})
	}
}

func checkDoublePositions(c *core.Ctx, v float64) {
	if !c.Begin() {
		return
	}
	c.NontrivialN(1)
	f32ok := float64(float32(v)) == v || math.IsNaN(v)
	h := &FloatPos{F64: v, L64: []float64{0.5, v, 0.25}, M: map[string]float64{"k": v}, End: 7}
	if f32ok {
		h.F32 = float32(v)
		h.L32 = []float32{0.5, float32(v)}
	}
	report := func(stage, kind, msg, detail string) {
		c.Report(&core.Violation{Stage: stage, Kind: kind, Shape: "positions " + dblShape(v), Message: msgClass(msg), Case: fmt.Sprintf("FloatPos with %v (bits %016x) in F64, F32, []float64, []float32, map value", v, math.Float64bits(v)), Detail: detail})
	}
	tm, nm, _ := Maps(h)
	enc := Encode(h, nm)
	if !enc.OK() {
		report("encode", "error", fmt.Sprint(enc.Err, enc.Panic), "")
		return
	}
	// every double in the stream must use the shortest exact form, wherever it sits
	if pv, err := rh.ParseOne(enc.Bytes); err != nil {
		report("refparse", "malformed", "reference decoder rejects the stream: "+err.Error(), hexs(enc.Bytes))
		return
	} else {
		var bad string
		var walk func(x *rh.Value, path string)
		seen := map[*rh.Value]bool{}
		walk = func(x *rh.Value, path string) {
			if x == nil || seen[x] {
				return
			}
			seen[x] = true
			if x.K == rh.Double && !math.IsNaN(x.F) && bad == "" {
				want := rh.ShortestDouble(x.F)
				if x.Octets != want {
					bad = fmt.Sprintf("double %v at %s written in %d octets, shortest exact form has %d", x.F, path, x.Octets, want)
				}
			}
			for i, e := range x.Elems {
				walk(e, fmt.Sprintf("%s/%d", path, i))
			}
		}
		walk(pv, "$")
		if bad != "" {
			report("encode", "form", "a double at a non-top position is not in the shortest exact form", bad+" | "+hexs(enc.Bytes))
			return
		}
	}
	dec := Decode(enc.Bytes, tm)
	if !dec.OK() {
		report("decode", "error", fmt.Sprint(dec.Err, dec.Panic), hexs(enc.Bytes))
		return
	}
	d, ok := dec.Val.(*FloatPos)
	if !ok {
		report("decode", "type", fmt.Sprintf("decoded %T", dec.Val), "")
		return
	}
	bad := ""
	switch {
	case !sameNumber(d.F64, v):
		bad = fmt.Sprintf("F64=%v", d.F64)
	case f32ok && !(math.Float32bits(d.F32) == math.Float32bits(float32(v)) || (v == 0 && d.F32 == 0) || (math.IsNaN(v) && d.F32 != d.F32)):
		bad = fmt.Sprintf("F32=%v bits %08x want %08x", d.F32, math.Float32bits(d.F32), math.Float32bits(float32(v)))
	case len(d.L64) != 3 || !sameNumber(d.L64[1], v) || d.L64[0] != 0.5 || d.L64[2] != 0.25:
		bad = fmt.Sprintf("L64=%v", d.L64)
	case f32ok && (len(d.L32) != 2 || !sameNumber(float64(d.L32[1]), float64(float32(v)))):
		bad = fmt.Sprintf("L32=%v", d.L32)
	case len(d.M) != 1 || !sameNumber(d.M["k"], v):
		bad = fmt.Sprintf("M=%v", d.M)
	case d.End != 7:
		bad = fmt.Sprintf("End=%v", d.End)
	}
	if bad != "" {
		report("decode", "mismatch", "double at a non-top position decodes to a different number", bad+" | bytes "+hexs(enc.Bytes))
		return
	}
	c.Outcome("positions-exact")
}

func doubleSpecials() []float64 {
	l := []float64{0, math.Copysign(0, -1), 1, -1, math.Inf(1), math.Inf(-1), math.NaN(), math.Float64frombits(0x7ff0000000000001), math.Float64frombits(0xfff8000000000001),
		math.SmallestNonzeroFloat64, -math.SmallestNonzeroFloat64, math.Float64frombits(0x000fffffffffffff), math.MaxFloat64, -math.MaxFloat64, math.MaxFloat32, math.SmallestNonzeroFloat32,
		127, 128, -128, -129, 32767, 32768, -32768, -32769, 0.5, 0.1, 2, 100, 1 << 53, -(1 << 63), 1e300}
	return l
}

func init() {
	core.Register(&core.Prop{
		ID: "C08", Level: "model_checking",
		Rule:        "Exhaustive enumeration of doubles through the real encoder/decoder against R1's shortest exact form and the number itself: (thorough) every one of the 2^32 float32 bit patterns widened to float64; every float32 pattern whose low 16 bits are in {0000,0001,7fff,8000,ffff}; every integer in [-70000,70000]; +-2^k and both neighbours for k in -1074..1023; every exponent x 12 mantissas of float32 precision (low 29 bits zero) x both signs; every float64 whose bytes are all in {00,01,7f,80,ff}; NaNs, infinities, zeros, subnormal extremes; and a reduced set at the non-top positions (float64 field, float32 field, []float64, []float32, map value). Distinct by construction; every case non-trivial.",
		Assumptions: []string{"float64 is exhaustive only over the structured families, not over 2^64", "x5f is read as a 32-bit float, as the specification text says"},
		Units: func(tier string) []core.Unit {
			var us []core.Unit
			us = append(us, core.Unit{Name: "integers", Cost: 10, Run: func(c *core.Ctx) {
				s := newSweepCodec()
				scratch := make([]byte, 0, 16)
				for i := -70000; i <= 70000; i++ {
					if c.Begin() {
						checkDouble(c, s, float64(i), scratch)
					}
				}
				c.NontrivialN(c.Res.Evaluations)
				c.Outcome("integers")
				c.Sample("float64 2 -> 5d 02 -> 2")
			}})
			us = append(us, core.Unit{Name: "powers-and-specials", Cost: 5, Run: func(c *core.Ctx) {
				s := newSweepCodec()
				scratch := make([]byte, 0, 16)
				for k := -1074; k <= 1023; k++ {
					p := math.Ldexp(1, k)
					for _, v := range []float64{p, math.Nextafter(p, 0), math.Nextafter(p, math.Inf(1)), -p, math.Nextafter(-p, 0), math.Nextafter(-p, math.Inf(-1))} {
						if c.Begin() {
							checkDouble(c, s, v, scratch)
						}
					}
				}
				for _, v := range doubleSpecials() {
					if c.Begin() {
						checkDouble(c, s, v, scratch)
						c.Outcome(dblShape(v))
					}
				}
				// integral doubles beyond the 16-bit forms: 2^k + d and 10^k + d (exact while below 2^53)
				for k := 0; k <= 62; k++ {
					for d := int64(-3); d <= 3; d++ {
						for _, sign := range []float64{1, -1} {
							if c.Begin() {
								checkDouble(c, s, sign*float64((int64(1)<<uint(k))+d), scratch)
							}
						}
					}
				}
				p10 := int64(1)
				for k := 0; k <= 18; k++ {
					for d := int64(-2); d <= 2; d++ {
						if c.Begin() {
							checkDouble(c, s, float64(p10+d), scratch)
						}
						if c.Begin() {
							checkDouble(c, s, -float64(p10+d), scratch)
						}
					}
					p10 *= 10
				}
				for _, v := range []float64{123456789, 16777217, 33554431, 2147483647, 2147483648, 4294967295, 9007199254740991, 9007199254740993, 1e15 + 0.5, 3.0000000000000004, 127.00000000000001, 0.5000000000000001} {
					if c.Begin() {
						checkDouble(c, s, v, scratch)
						checkDouble(c, s, -v, scratch)
					}
				}
				c.NontrivialN(c.Res.Evaluations)
			}})
			for sh := 0; sh < 5; sh++ {
				sh := sh
				us = append(us, core.Unit{Name: fmt.Sprintf("float64-bytealphabet-%d", sh), Cost: 30, Run: func(c *core.Ctx) {
					s := newSweepCodec()
					scratch := make([]byte, 0, 16)
					var rec func(d int, v uint64)
					rec = func(d int, v uint64) {
						if d == 8 {
							if c.Begin() {
								checkDouble(c, s, math.Float64frombits(v), scratch)
							}
							return
						}
						for _, b := range byteAlphabet {
							rec(d+1, v<<8|uint64(b))
						}
					}
					rec(1, uint64(byteAlphabet[sh]))
					c.NontrivialN(c.Res.Evaluations)
					c.Outcome("bytealphabet")
				}})
			}
			for sh := 0; sh < 5; sh++ {
				sh := sh
				us = append(us, core.Unit{Name: fmt.Sprintf("float32-low16-%d", sh), Cost: 20, Run: func(c *core.Ctx) {
					s := newSweepCodec()
					scratch := make([]byte, 0, 16)
					low := []uint32{0x0000, 0x0001, 0x7fff, 0x8000, 0xffff}[sh]
					for hi := uint32(0); hi < 1<<16; hi++ {
						if c.Begin() {
							checkDouble(c, s, float64(math.Float32frombits(hi<<16|low)), scratch)
							checkFloat32Typed(c, s, math.Float32frombits(hi<<16|low), scratch)
						}
					}
					c.NontrivialN(c.Res.Evaluations)
					c.Outcome("float32-pattern")
				}})
			}
			us = append(us, core.Unit{Name: "float32-precision-mantissas", Cost: 10, Run: func(c *core.Ctx) {
				// doubles whose mantissa fits 23 bits, at every exponent: inside the float32 subnormal range
				// such a value is NOT a float32 although its low 29 mantissa bits are zero
				s := newSweepCodec()
				scratch := make([]byte, 0, 16)
				mants := []uint64{0, 1, 2, 3, 0x400000, 0x400001, 0x600000, 0x7ffffe, 0x7fffff, 0x000100, 0x555555, 0x2aaaaa}
				for e := uint64(0); e < 2047; e++ {
					for _, m := range mants {
						for _, sign := range []uint64{0, 1} {
							if c.Begin() {
								checkDouble(c, s, math.Float64frombits(sign<<63|e<<52|m<<29), scratch)
							}
						}
					}
				}
				c.NontrivialN(c.Res.Evaluations)
				c.Outcome("float32-precision")
			}})
			us = append(us, core.Unit{Name: "positions", Cost: 10, Run: func(c *core.Ctx) {
				for _, v := range doubleSpecials() {
					checkDoublePositions(c, v)
				}
				for i := -300; i <= 300; i++ {
					checkDoublePositions(c, float64(i))
					checkDoublePositions(c, float64(i)+0.5)
				}
				for k := -1074; k <= 1023; k += 7 {
					checkDoublePositions(c, math.Ldexp(1, k))
				}
				c.Cover("positions")
				c.Sample("FloatPos{F64:2, F32:2, L64:[0.5 2 0.25], L32:[0.5 2], M:{k:2}}")
			}})
			if tier == "thorough" {
				const shards = 128
				for sh := 0; sh < shards; sh++ {
					sh := sh
					us = append(us, core.Unit{Name: fmt.Sprintf("float32-all-%03d", sh), Cost: 100, Run: func(c *core.Ctx) {
						s := newSweepCodec()
						scratch := make([]byte, 0, 16)
						lo := uint64(sh) * (1 << 32 / shards)
						for u := lo; u < lo+(1<<32/shards); u++ {
							if c.Begin() {
								checkDouble(c, s, float64(math.Float32frombits(uint32(u))), scratch)
								checkFloat32Typed(c, s, math.Float32frombits(uint32(u)), scratch)
							}
						}
						c.NontrivialN(c.Res.Evaluations)
						c.Outcome("float32-all")
						c.Cover(fmt.Sprintf("float32-all-%03d", sh))
					}})
				}
			}
			us = append(us, largeUnit(tier, "[]float64", "Boundary"))
			return us
		},
		RequireCover: func(tier string) []string {
			l := []string{"positions"}
			if tier == "thorough" {
				for sh := 0; sh < 128; sh++ {
					l = append(l, fmt.Sprintf("float32-all-%03d", sh))
				}
			}
			return l
		},
	})
}
