package props

import (
	"bytes"
	"encoding/json"
	"fmt"
	"os"
	"reflect"
	"sort"
	"strings"
	"sync"
	"time"

	hessian "github.com/vogo/gohessian"

	"verif/harness/core"
	"verif/harness/explore"
	"verif/harness/sched"
	"verif/harness/zoo"
)

type K12 struct {
	A int32
	S string
	P *K12
}

type K12t struct {
	T time.Time
	L []int32
}

// shared12 is what all threads of a scenario share: complete maps and read-only inputs.
type shared12 struct {
	tm      map[string]reflect.Type
	nm      map[string]string
	v1, v2  *K12
	vt      *K12t
	d1, d2  time.Time
	custom  *zoo.CustomNamed
	b1, b2  []byte
	bt      []byte
	long    string
	bin     []byte
	garbage [][]byte
	mapMsgs [][]byte // structs with map fields of one map type and different single entries (read-only)
	mapTM   map[string]reflect.Type
	snap    string
	epool   hessian.Pool
	dpool   hessian.Pool
	spool   hessian.Pool
}

var tmpl12 *shared12

func newShared12() *shared12 {
	if tmpl12 == nil {
		t := &shared12{}
		v1 := &K12{A: 1, S: "one"}
		v1.P = v1
		v2 := &K12{A: 300000, S: "two", P: &K12{A: 2}}
		vt := &K12t{T: zoo.RefTime, L: []int32{1, 2}}
		t.tm, t.nm = unionMaps(v1, v2, vt, &zoo.CustomNamed{})
		t.b1, _ = hessian.ToBytes(v1, copyNameMap(t.nm))
		t.b2, _ = hessian.ToBytes(v2, copyNameMap(t.nm))
		t.bt, _ = hessian.ToBytes(vt, copyNameMap(t.nm))
		t.long = strings.Repeat("x", 2049)
		t.bin = make([]byte, 4097)
		// damaged inputs that walk the error paths reading package-level state (logger, zero values)
		t.garbage = [][]byte{
			{},                                   // no tag at top level
			t.b2[:len(t.b2)-1],                   // struct truncated inside its last field
			t.b2[:bytes.IndexByte(t.b2, 0x60)+1], // instance tag, then nothing: field read hits end of input
			{0x79},                               // list of one element, element missing
			{0x51, 0x95},                         // reference out of range
			{0x51, 'I', 0xff, 0xff, 0xff, 0xff},  // negative reference
			{0x4a, 0x00},                         // truncated date
			{0x4b},                               // truncated compact date
			append(append([]byte{}, t.bt[:bytes.IndexByte(t.bt, 0x4a)]...), 0x4a, 0x01), // date field truncated inside a struct
			{0x72, 0x04, '[', 'i', 'n', 't', 0x91, 'N'},                                 // typed list with a null element
			{0x45}, // unknown tag
			{0x51}, // reference tag, ordinal missing
			append([]byte{}, t.bt[:bytes.IndexByte(t.bt, 0x4a)+9]...),                     // struct cut right before its slice field: ReadList finds no tag
			append(append([]byte{}, t.bt[:bytes.IndexByte(t.bt, 0x4a)+9]...), 0x51, 0x90), // slice field fed a reference to the object itself (not a list)
			append(append([]byte{}, t.bt[:bytes.IndexByte(t.bt, 0x4a)+9]...), 0x78),       // slice field fed an empty untyped list
			// class with a field the Go type lacks, holding an instance of a class missing from the type map
			{'C', 0x03, 'K', '1', '2', 0x92, 0x01, 'a', 0x02, 'z', 'z', 0x60, 0x91, 'C', 0x02, 'N', 'o', 0x91, 0x01, 'q', 0x61, 0x92},
		}
		mvals := []interface{}{&zoo.MpStrI32{M: map[string]int32{"a": 1}, End: 1}, &zoo.MpStrI32{M: map[string]int32{"b": 2}, End: 2},
			&zoo.MpStrStr{M: map[string]string{"k": "v"}, End: 3}, &zoo.MpStrStr{M: map[string]string{"q": ""}, End: 4}, zoo.NamedMap{"x": "y"}, zoo.NamedMap{"z": "w"}}
		mtm, mnm := unionMaps(mvals...)
		t.mapTM = mtm
		for _, mv := range mvals {
			b, _ := hessian.ToBytes(mv, copyNameMap(mnm))
			t.mapMsgs = append(t.mapMsgs, b)
		}
		tmpl12 = t
	}
	t := tmpl12
	s := &shared12{tm: copyTypeMap(t.tm), nm: copyNameMap(t.nm), b1: append([]byte{}, t.b1...), b2: append([]byte{}, t.b2...), bt: append([]byte{}, t.bt...), long: t.long, bin: t.bin}
	s.v1 = &K12{A: 1, S: "one"}
	s.v1.P = s.v1
	s.v2 = &K12{A: 300000, S: "two", P: &K12{A: 2}}
	s.vt = &K12t{T: zoo.RefTime, L: []int32{1, 2}}
	s.d1 = zoo.RefTime
	s.d2 = zoo.RefTime.Add(1234567 * time.Millisecond)
	s.custom = &zoo.CustomNamed{K: "k", V: 5}
	for _, g := range t.garbage {
		s.garbage = append(s.garbage, append([]byte{}, g...))
	}
	s.epool = hessian.NewEncoderPool(2, s.nm)
	s.dpool = hessian.NewDecoderPool(2, s.tm)
	s.spool = hessian.NewSerializerPool(2, s.tm, s.nm)
	s.snap = s.snapshot()
	return s
}

func (s *shared12) snapshot() string {
	var sb strings.Builder
	fmt.Fprintf(&sb, "%d %d|%d %s %p %d %s %d|%x|%x|%x|%d %d|", len(s.nm), len(s.tm), s.v1.A, s.v1.S, s.v1.P, s.v2.A, s.v2.S, s.v2.P.A, s.b1, s.b2, s.bt, len(s.long), len(s.bin))
	for _, g := range s.garbage {
		fmt.Fprintf(&sb, "%x,", g)
	}
	for k, v := range tmpl12.nm {
		if s.nm[k] != v {
			sb.WriteString("NM!")
		}
	}
	for k, v := range tmpl12.tm {
		if s.tm[k] != v {
			sb.WriteString("TM!")
		}
	}
	return sb.String()
}

type body12 struct {
	name string
	run  func(s *shared12) string
	// nondet: the number of statements executed varies between runs (Go map iteration inside the
	// library): usable in quantum sweeps and the race pass, not in replayed explorations
	nondet bool
}

var bodies12 = []body12{
	{"encode v1 (own Encoder)", func(s *shared12) string {
		b, err := hessian.NewEncoder(nil, s.nm).Encode(s.v1)
		return encRes(b, err, "")
	}, false},
	{"encode v2 (Encoder from pool)", func(s *shared12) string {
		e := s.epool.Get().(*hessian.Encoder)
		b, err := e.Encode(s.v2)
		s.epool.Return(e)
		return encRes(b, err, "")
	}, false},
	{"decode b1 (own Decoder)", func(s *shared12) string {
		v, err := hessian.NewDecoder(nil, s.tm).Decode(s.b1)
		return decRes(v, err, "")
	}, false},
	{"decode b2 (Decoder from pool)", func(s *shared12) string {
		d := s.dpool.Get().(*hessian.Decoder)
		v, err := d.Decode(s.b2)
		s.dpool.Return(d)
		return decRes(v, err, "")
	}, false},
	{"encode 2049-char string + 4097-octet binary (Serializer from pool)", func(s *shared12) string {
		z := s.spool.Get().(hessian.Serializer)
		b, err := z.ToBytes(s.long)
		r := encRes(b[:min(8, len(b))], err, "") + fmt.Sprint(len(b))
		b, err = z.ToBytes(s.bin)
		s.spool.Return(z)
		return r + encRes(b[:min(8, len(b))], err, "") + fmt.Sprint(len(b))
	}, false},
	{"decode 16 damaged inputs (own Serializer)", func(s *shared12) string {
		z := hessian.NewSerializer(s.tm, s.nm)
		var sb strings.Builder
		for _, g := range s.garbage {
			v, err := z.ToObject(g)
			sb.WriteString(decRes(v, err, "") + ";")
		}
		return sb.String()
	}, false},
	{"date and typed list round trip (own Serializer)", func(s *shared12) string {
		z := hessian.NewSerializer(s.tm, s.nm)
		b, err := z.ToBytes(s.vt)
		if err != nil {
			return "ERR " + err.Error()
		}
		v, err := z.ToObject(b)
		return decRes(v, err, "")
	}, false},
	{"two long-form dates, each encoded twice, and a custom-named struct (own Encoder)", func(s *shared12) string {
		e := hessian.NewEncoder(nil, s.nm)
		var sb strings.Builder
		for _, t := range []time.Time{s.d1, s.d2, s.d1, s.d2} {
			b, err := e.Encode(t)
			sb.WriteString(encRes(b, err, "") + ";")
		}
		b, err := e.Encode(s.custom)
		sb.WriteString(encRes(b, err, ""))
		return sb.String()
	}, false},
	{"streaming: two writes and two reads on own Encoder/Decoder", func(s *shared12) string {
		w := &strings.Builder{}
		e := hessian.NewEncoder(w, s.nm)
		if err := e.WriteObject(s.v2); err != nil {
			return "ERR " + err.Error()
		}
		if err := e.WriteObject(s.v2.P); err != nil {
			return "ERR " + err.Error()
		}
		d := hessian.NewDecoder(strings.NewReader(w.String()), s.tm)
		a, err := d.ReadObject()
		if err != nil {
			return "ERR " + err.Error()
		}
		b, err := d.ReadObject()
		return decRes(a, nil, "") + decRes(b, err, "") + fmt.Sprint(a.(*K12).P == b)
	}, false},
	{"ExtractTypeNameMap + round trip with the extracted maps", func(s *shared12) string {
		tm, nm := hessian.ExtractTypeNameMap(&zoo.SlI32{L: []int32{1}, End: 2})
		b, err := hessian.ToBytes(&zoo.SlI32{L: []int32{5, 6}, End: 7}, nm)
		if err != nil {
			return "ERR " + err.Error()
		}
		v, err := hessian.ToObject(b, tm)
		return decRes(v, err, "")
	}, true},
	{"two refused encodes (int beyond int32, channel), then three encodes (own Encoder)", func(s *shared12) string {
		e := hessian.NewEncoder(nil, s.nm)
		_, err1 := e.Encode(int(1) << 40)
		_, err2 := e.Encode(make(chan int))
		var sb strings.Builder
		fmt.Fprint(&sb, err1 != nil, err2 != nil, ";")
		for _, v := range []interface{}{s.v2, s.long, s.vt} {
			b, err := e.Encode(v)
			sb.WriteString(encRes(b, err, "") + ";")
		}
		return sb.String()
	}, false},
	{"decode six values with maps of three map types, one entry each (own Decoder)", func(s *shared12) string {
		d := hessian.NewDecoder(nil, copyTypeMap(tmpl12.mapTM))
		var sb strings.Builder
		for _, b := range tmpl12.mapMsgs {
			v, err := d.Decode(b)
			sb.WriteString(decRes(v, err, "") + ";")
		}
		return sb.String()
	}, false},
	{"package-level ToBytes / ToObject with nil maps (int, string, list, map)", func(s *shared12) string {
		var sb strings.Builder
		for _, v := range []interface{}{int32(300), "héllo", []interface{}{int32(1), "two"}, map[interface{}]interface{}{"k": int32(1)}} {
			b, err := hessian.ToBytes(v, nil)
			sb.WriteString(encRes(b, err, "") + ";")
			if err == nil {
				o, err := hessian.ToObject(b, nil)
				sb.WriteString(decRes(o, err, "") + ";")
			}
		}
		return sb.String()
	}, false},
	{"decode a list nested 48 deep and encode it back (own Serializer)", func(s *shared12) string {
		z := hessian.NewSerializer(s.tm, s.nm)
		in := append(bytes.Repeat([]byte{0x79}, 48), 0x91)
		v, err := z.ToObject(in)
		if err != nil {
			return "ERR " + err.Error()
		}
		depth := 0
		for x := v; ; depth++ {
			l, ok := x.([]interface{})
			if !ok || len(l) != 1 {
				break
			}
			x = l[0]
		}
		b, err := z.ToBytes(v)
		return fmt.Sprint(depth, " ") + encRes(b, err, "")
	}, false},
}

// nameFlood decodes values carrying n distinct class, field and type names on throw-away decoders.
func nameFlood(n int) {
	str := func(s string) []byte { return append([]byte{byte(len(s))}, s...) }
	for i := 0; i < n; {
		var b []byte
		for len(b) < 60000 && i < n {
			i++
			switch i % 3 {
			case 0:
				b = append(append(append(b, 'C'), str(fmt.Sprintf("c.F%07d", i))...), 0x92)
				b = append(append(b, str(fmt.Sprintf("g%07da", i))...), str(fmt.Sprintf("g%07db", i))...)
			case 1:
				b = append(append(append(b, 0x71), str(fmt.Sprintf("[t.F%07d", i))...), 0x90)
			default:
				b = append(append(append(b, 'M'), str(fmt.Sprintf("m.F%07d", i))...), 'Z')
			}
		}
		d := hessian.NewDecoder(bytes.NewReader(b), map[string]reflect.Type{})
		for {
			if _, err := d.ReadObject(); err != nil {
				break
			}
		}
	}
}

func min(a, b int) int {
	if a < b {
		return a
	}
	return b
}

var solo12 []string
var solo12Once sync.Once

func soloResults() []string {
	solo12Once.Do(func() {
		for _, b := range bodies12 {
			s := newShared12()
			var r string
			if p := core.Catch(func() { r = b.run(s) }); p != "" {
				r = "PANIC " + p
			}
			solo12 = append(solo12, r)
		}
	})
	return solo12
}

type sharedSite struct {
	ID   int      `json:"id"`
	File string   `json:"file"`
	Line int      `json:"line"`
	Func string   `json:"func"`
	Vars []string `json:"pkg_vars"`
}

func loadSites() (sites map[int]sharedSite, total int) {
	sites = map[int]sharedSite{}
	b, err := os.ReadFile(os.Getenv("VERIF_POINTS"))
	if err != nil {
		return
	}
	var all []sharedSite
	if json.Unmarshal(b, &all) != nil {
		return
	}
	total = len(all)
	for _, p := range all {
		if len(p.Vars) > 0 && p.Func != "addBuildInNameType" && p.Func != "SetLogger" {
			sites[p.ID] = p
		}
	}
	return
}

// verdict12 compares the threads' results with the solo results.
func verdict12(c *core.Ctx, r *sched.Run, s *shared12, idx []int, results []string, desc, shape string) bool {
	if r != nil && r.TotalPoints > 0 {
		c.Cover("instrumented")
	}
	solo := soloResults()
	kind, msg := "", ""
	switch {
	case r != nil && r.Deadlock:
		kind, msg = "deadlock", "no enabled thread while some thread is unfinished: "+strings.Join(r.NativeBlocks, "; ")
	default:
		if r != nil {
			for _, t := range r.Threads {
				if t.Panic != "" {
					kind, msg = "panic", fmt.Sprintf("thread running %q panicked: %s", bodies12[idx[t.ID]].name, t.Panic)
				}
			}
		}
		if msg == "" {
			for i, bi := range idx {
				if results[i] != solo[bi] {
					kind, msg = "differs-from-solo", fmt.Sprintf("%q returned something else than when run alone", bodies12[bi].name)
					desc += fmt.Sprintf("\n got  %s\n solo %s", trunc200(results[i]), trunc200(solo[bi]))
					break
				}
			}
		}
		if msg == "" && s.snapshot() != s.snap {
			kind, msg = "shared-input-modified", "a shared map or read-only input was modified"
		}
	}
	if msg != "" {
		c.Report(&core.Violation{Stage: "schedule", Kind: kind, Shape: shape, Message: msgStrict(msg), Case: desc})
		if kind == "deadlock" {
			c.Stop("deadlocked goroutines cannot be reclaimed")
		}
		return false
	}
	c.Outcome("as-solo")
	return true
}

func schedBodies(c *core.Ctx, idx []int, bound int, hit map[int]bool) {
	var names []string
	for _, i := range idx {
		names = append(names, bodies12[i].name)
	}
	desc := fmt.Sprintf("threads %q", names)
	ok := true
	ex := &explore.Explorer{Bound: bound}
	first := true
	var firstTrace string
	ex.Case = func(ch *explore.Chooser) {
		s := newShared12()
		results := make([]string, len(idx))
		var fns []func()
		for k, bi := range idx {
			k, bi := k, bi
			fns = append(fns, func() { results[k] = bodies12[bi].run(s) })
		}
		r := sched.New(ch, fns...)
		r.KeepTrace = true
		r.Hit = hit
		if !c.Begin() {
			return
		}
		r.Execute(&hessian.VerifPointHook)
		c.Res.Extra["points_executed"] += int64(r.TotalPoints)
		if first {
			// determinism: the default schedule is run twice and must execute the same number of points per thread
			first = false
			firstTrace = fmt.Sprint(r.TotalPoints, r.Threads[0].Points)
			s2 := newShared12()
			res2 := make([]string, len(idx))
			var fns2 []func()
			for k, bi := range idx {
				k, bi := k, bi
				fns2 = append(fns2, func() { res2[k] = bodies12[bi].run(s2) })
			}
			r2 := sched.New(explore.ReplayOne(ch.Choices(), func(*explore.Chooser) {}), fns2...)
			r2.Execute(&hessian.VerifPointHook)
			if t2 := fmt.Sprint(r2.TotalPoints, r2.Threads[0].Points); t2 != firstTrace {
				c.Report(&core.Violation{Stage: "selfcheck", Kind: "harness", Shape: "nondeterminism", Message: "the default schedule does not replay identically", Case: desc + " " + firstTrace + " vs " + t2})
				ok = false
				return
			}
			if r.TotalPoints == 0 {
				c.Res.Notes = append(c.Res.Notes, "no scheduling point executed: binary not instrumented")
			}
		}
		if !verdict12(c, r, s, idx, results, fmt.Sprintf("%s; switches (thread@point) %v", desc, r.Trace), fmt.Sprintf("%d threads", len(idx))) {
			ok = false
		}
		if ch.Devs() > 0 {
			c.NontrivialN(1)
			if c.WantSample() && ch.Devs() == bound {
				c.Sample(fmt.Sprintf("%s; switches (thread@point) %v", desc, r.Trace))
			}
		}
	}
	ex.Visit = func(*explore.Chooser) bool { return ok && !c.Expired() }
	runTolerant(c, ex, desc)
	c.Res.States += ex.Stats.Executions
	c.Res.Transitions += ex.Stats.Transitions
}

// runTolerant runs an exploration; if replaying a schedule prefix does not reproduce the recorded
// decision points (synchronisation in the code under test that the scheduler does not control, or
// lazily initialised state that makes the first execution differ from later ones) the exploration of
// this scenario stops and is reported as not exhaustive - it is a limit of the harness, not a verdict.
func runTolerant(c *core.Ctx, ex *explore.Explorer, desc string) {
	defer func() {
		if x := recover(); x != nil {
			if d, ok := x.(explore.ErrDiverged); ok {
				c.Res.Exhaustive = false
				c.Res.Extra["schedule_replays_diverged"]++
				c.Res.Notes = append(c.Res.Notes, "exploration of "+desc+" stopped: "+d.Error())
				return
			}
			panic(x)
		}
	}()
	ex.Run(nil)
}

func recordSites(c *core.Ctx, hit map[int]bool) {
	sites, total := loadSites()
	reached := 0
	for id := range sites {
		if hit[id] {
			reached++
			c.Cover(fmt.Sprintf("site:%s:%d", sites[id].File, sites[id].Line))
		}
	}
	c.Res.Extra["points_total"] = int64(total)
	for id := range hit {
		c.Cover(fmt.Sprintf("pt%d", id))
	}
	_ = reached
}

func init() {
	nb := len(bodies12)
	core.Register(&core.Prop{
		ID: "C12", Level: "model_checking",
		Rule:        "Stateless exploration under a hand-written controlled scheduler: the package's sources are instrumented (go build -overlay on scratch copies) with a scheduling point before every statement; 2 or 3 goroutines, each driving its own Encoder / Decoder / Serializer (constructed directly or obtained from the library's pools) over one shared complete name map and type map and shared read-only inputs, run real library calls (encode, decode, chunked string/binary encode, decode of damaged input, map extraction, streaming) one thread at a time; at every point the explorer may preempt to another thread; all schedules with at most k preemptions are enumerated by prefix-replay DFS (k iterated 0..bound; quick: bound 1 for every ordered pair and bound 2 for the pairs of the five shortest bodies; thorough: bound 2 for every pair, bound 3 for short pairs, bound 2 for triples), plus round-robin quantum sweeps (every quantum 1..64, every start thread) for 4..64 threads. Oracle per schedule: every call returns exactly what it returns when run alone, shared maps and inputs are unchanged, no thread deadlocks or panics. Companion: the same bodies free-running on 2/8/64 goroutines under the race detector. Non-trivial = schedule with >= 1 preemption; distinct = distinct choice vectors.",
		Assumptions: []string{"interleavings inside one statement, weak memory behaviours and the standard library's internals are not modelled", "unsynchronised accesses are the race detector's part (free-running companion pass); the scheduler decides result equality under every bounded interleaving", "scenario inputs contain no map with more than one entry"},
		Units: func(tier string) []core.Unit {
			var us []core.Unit
			// point counts per body are reported by the "measure" unit; short = encode bodies and small decodes
			short := []int{0, 1, 4, 7}
			isShort := func(i int) bool {
				for _, s := range short {
					if s == i {
						return true
					}
				}
				return false
			}
			for a := 0; a < nb; a++ {
				for b := a; b < nb; b++ {
					a, b := a, b
					if bodies12[a].nondet || bodies12[b].nondet {
						continue
					}
					bound := 1
					if isShort(a) && isShort(b) {
						bound = 2
					}
					if tier == "thorough" {
						// two preemptions where the pair has at most ~1600 points (about 1.3 million schedules);
						// the long bodies (damaged inputs, streaming) keep one
						long := map[int]bool{5: true, 8: true}
						if !long[a] && !long[b] {
							bound = 2
						}
						if a == 4 && b == 4 {
							bound = 3 // the shortest body (92 points): one more preemption
						}
					}
					bb := bound
					us = append(us, core.Unit{Name: fmt.Sprintf("pair:%d+%d:k%d", a, b, bb), Cost: 100 * bb * bb, Run: func(c *core.Ctx) {
						hit := map[int]bool{}
						schedBodies(c, []int{a, b}, bb, hit)
						recordSites(c, hit)
						c.Cover(fmt.Sprintf("body:%d", a))
						c.Cover(fmt.Sprintf("body:%d", b))
					}})
				}
			}
			us = append(us, core.Unit{Name: "measure", Cost: 1, Run: func(c *core.Ctx) {
				for i, b := range bodies12 {
					if !c.Begin() {
						continue
					}
					s := newShared12()
					r := sched.New(&sched.Quantum{Q: 1 << 30}, func() { b.run(s) })
					r.Execute(&hessian.VerifPointHook)
					c.Res.Strs[fmt.Sprintf("points in body %d (%s)", i, b.name)] = fmt.Sprint(r.TotalPoints)
				}
			}})
			triples := [][]int{{0, 1, 2}, {0, 2, 3}, {1, 3, 6}, {0, 4, 5}, {7, 7, 7}}
			if tier != "thorough" {
				triples = triples[:2]
			}
			for ti, tr := range triples {
				tr := tr
				bound := 1
				if tier == "thorough" && (ti == 0 || ti == 4) {
					bound = 2 // about 1100 points in the three bodies together: 3-4 million schedules; the longer triples keep one preemption
				}
				us = append(us, core.Unit{Name: fmt.Sprintf("triple:%v:k%d", tr, bound), Cost: 150 * bound * bound, Run: func(c *core.Ctx) {
					hit := map[int]bool{}
					schedBodies(c, tr, bound, hit)
					recordSites(c, hit)
				}})
			}
			us = append(us, coldUnits(tier)...)
			us = append(us, core.Unit{Name: "quantum-sweeps", Cost: 200, Run: func(c *core.Ctx) {
				hit := map[int]bool{}
				for _, n := range []int{4, 8, 16, 64} {
					maxQ := 64
					if tier != "thorough" && n > 8 {
						maxQ = 16
					}
					for q := 1; q <= maxQ; q++ {
						for start := 0; start < n; start += 1 + n/4 {
							if !c.Begin() {
								continue
							}
							c.NontrivialN(1)
							s := newShared12()
							idx := make([]int, n)
							results := make([]string, n)
							var fns []func()
							for k := 0; k < n; k++ {
								k := k
								idx[k] = (k + start) % nb
								fns = append(fns, func() { results[k] = bodies12[idx[k]].run(s) })
							}
							r := sched.New(&sched.Quantum{Q: q, Start: start}, fns...)
							r.Hit = hit
							r.Execute(&hessian.VerifPointHook)
							c.Res.States++
							c.Res.Transitions += int64(r.Switches)
							c.Res.Extra["points_executed"] += int64(r.TotalPoints)
							verdict12(c, r, s, idx, results, fmt.Sprintf("%d threads round-robin, quantum %d statements, start thread %d", n, q, start), "quantum")
						}
					}
				}
				recordSites(c, hit)
				c.Cover("quantum")
				c.Sample("64 threads round-robin with a quantum of 7 statements")
			}})
			// many threads all inside a deeply nested value at the same time (anything that adds up over the
			// decoders in progress - nesting levels, buffers in flight - peaks here)
			us = append(us, core.Unit{Name: "quantum-deep", Cost: 100, Run: func(c *core.Ctx) {
				deep := nb - 1
				for _, n := range []int{24, 64} {
					for q := 1; q <= tierPick(tier, 24, 64); q++ {
						if !c.Begin() {
							continue
						}
						c.NontrivialN(1)
						s := newShared12()
						idx := make([]int, n)
						results := make([]string, n)
						var fns []func()
						for k := 0; k < n; k++ {
							k := k
							idx[k] = deep
							fns = append(fns, func() { results[k] = bodies12[deep].run(s) })
						}
						r := sched.New(&sched.Quantum{Q: q}, fns...)
						r.Execute(&hessian.VerifPointHook)
						c.Res.States++
						c.Res.Transitions += int64(r.Switches)
						c.Res.Extra["points_executed"] += int64(r.TotalPoints)
						verdict12(c, r, s, idx, results, fmt.Sprintf("%d threads all decoding a list nested 48 deep, round-robin, quantum %d statements", n, q), "quantum-deep")
					}
				}
				c.Cover("quantum-deep")
			}})
			raceBodies := func(name string, flood bool) core.Unit {
				return core.Unit{Name: name, Cost: 300, Binary: "race", Run: func(c *core.Ctx) {
					reps := tierPick(tier, 6, 40)
					if flood {
						// process-wide state that only changes after very many distinct names have been seen
						reps = tierPick(tier, 3, 10)
						nameFlood(tierPick(tier, 80000, 600000))
					}
					for rep := 0; rep < reps; rep++ {
						for _, n := range []int{2, 8, 64} {
							if !c.Begin() {
								continue
							}
							c.NontrivialN(1)
							s := newShared12()
							idx := make([]int, n)
							results := make([]string, n)
							var wg sync.WaitGroup
							start := make(chan struct{})
							var pmu sync.Mutex
							pmsg := ""
							for k := 0; k < n; k++ {
								k := k
								idx[k] = (k + rep) % nb
								wg.Add(1)
								go func() {
									defer wg.Done()
									defer func() {
										if x := recover(); x != nil {
											pmu.Lock()
											pmsg = fmt.Sprint(x)
											pmu.Unlock()
										}
									}()
									<-start
									results[k] = bodies12[idx[k]].run(s)
								}()
							}
							close(start)
							wg.Wait()
							c.Res.States++
							if pmsg != "" {
								c.Report(&core.Violation{Stage: "race-pass", Kind: "panic", Shape: "free-running", Message: msgStrict(pmsg), Case: fmt.Sprintf("%d goroutines free-running", n)})
								continue
							}
							verdict12(c, nil, s, idx, results, fmt.Sprintf("%d goroutines free-running under the race detector (rep %d)", n, rep), "free-running")
						}
					}
					c.Cover(name)
				}}
			}
			us = append(us, raceBodies("race:bodies", false), raceBodies("race:after-name-flood", true))
			return us
		},
		RequireCover: func(string) []string {
			l := []string{"instrumented", "quantum", "quantum-deep", "race:bodies", "race:after-name-flood", "cold", "race:cold"}
			for i := range bodies12 {
				if !bodies12[i].nondet {
					l = append(l, fmt.Sprintf("body:%d", i))
				}
			}
			return l
		},
		Post: func(tier string, m *core.Merged) error {
			// anti-vacuity evidence: instrumentation points and shared-access sites reached
			sites, total := loadSites()
			pts, reached := 0, 0
			var missing []string
			for k := range m.Covered {
				if strings.HasPrefix(k, "pt") {
					pts++
					delete(m.Covered, k)
				}
			}
			for id, s := range sites {
				key := fmt.Sprintf("site:%s:%d", s.File, s.Line)
				if m.Covered[key] {
					reached++
				} else {
					missing = append(missing, fmt.Sprintf("%s:%d %s %v (point %d)", s.File, s.Line, s.Func, s.Vars, id))
				}
			}
			for k := range m.Covered {
				if strings.HasPrefix(k, "site:") {
					delete(m.Covered, k)
				}
			}
			sort.Strings(missing)
			m.ExtraCov["instrumentation_points_total"] = total
			m.ExtraCov["instrumentation_points_executed"] = pts
			m.ExtraCov["package_variable_access_sites_outside_init"] = len(sites)
			m.ExtraCov["package_variable_access_sites_reached"] = reached
			m.ExtraCov["package_variable_access_sites_not_reached"] = missing
			return nil
		},
	})
}
