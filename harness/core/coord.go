package core

import (
	"bufio"
	"encoding/json"
	"fmt"
	"os"
	"os/exec"
	"path/filepath"
	"regexp"
	"runtime"
	"runtime/debug"
	"sort"
	"strconv"
	"strings"
	"sync"
	"time"
)

// VerifDir is the root of the verification tree.
var VerifDir = "/verif"

// Finding is one entry of known_findings.json.
type Finding struct {
	Property  string `json:"property"`
	ID        string `json:"id"`
	Stage     string `json:"stage,omitempty"`
	Kind      string `json:"kind,omitempty"`
	ShapeRe   string `json:"shape_re,omitempty"`
	MessageRe string `json:"message_re,omitempty"`
	CaseRe    string `json:"case_re,omitempty"`
	What      string `json:"what"`
	Example   string `json:"example,omitempty"`
	shapeRe   *regexp.Regexp
	msgRe     *regexp.Regexp
	caseRe    *regexp.Regexp
}

// KnownFile is known_findings.json.
type KnownFile struct {
	Findings []*Finding `json:"findings"`
	Fixed    []string   `json:"fixed"`
}

// LoadKnown reads the committed known-findings file (never written at run time).
func LoadKnown() (*KnownFile, error) {
	var k KnownFile
	b, err := os.ReadFile(filepath.Join(VerifDir, "known_findings.json"))
	if err != nil {
		if os.IsNotExist(err) {
			return &k, nil
		}
		return nil, err
	}
	if err := json.Unmarshal(b, &k); err != nil {
		return nil, err
	}
	for _, f := range k.Findings {
		if f.ShapeRe != "" {
			f.shapeRe = regexp.MustCompile(f.ShapeRe)
		}
		if f.MessageRe != "" {
			f.msgRe = regexp.MustCompile(f.MessageRe)
		}
		if f.CaseRe != "" {
			f.caseRe = regexp.MustCompile(f.CaseRe)
		}
	}
	return &k, nil
}

// Match returns the finding that lists v, or nil.
func (k *KnownFile) Match(v *Violation) *Finding {
	for _, f := range k.Findings {
		if f.Property != v.Property {
			continue
		}
		if f.Stage != "" && f.Stage != v.Stage {
			continue
		}
		if f.Kind != "" && f.Kind != v.Kind {
			continue
		}
		if f.shapeRe != nil && !f.shapeRe.MatchString(v.Shape) {
			continue
		}
		if f.msgRe != nil && !f.msgRe.MatchString(v.Message) {
			continue
		}
		if f.caseRe != nil && !f.caseRe.MatchString(v.Case) {
			continue
		}
		return f
	}
	return nil
}

// Merged is the coordinator's view after all units ran.
type Merged struct {
	Prop        *Prop
	Tier        string
	Seed        int64
	Results     []*Result
	Evaluations int64
	States      int64
	Transitions int64
	ImplTraces  int64
	Nontrivial  map[uint64]struct{}
	DistinctBC  int64
	Outcomes    map[string]int64
	Samples     []interface{}
	Violations  []*Violation
	ViolCounts  map[string]int64
	Extra       map[string]int64
	Notes       []string
	Covered     map[string]bool
	Strs        map[string]string
	Exhaustive  bool
	UnitsRun    int
	UnitsTotal  int
	ExtraCov    map[string]interface{}
}

func (m *Merged) add(r *Result) {
	m.Results = append(m.Results, r)
	m.Evaluations += r.Evaluations
	m.States += r.States
	m.Transitions += r.Transitions
	m.ImplTraces += r.ImplTraces
	m.DistinctBC += r.DistinctByCon
	for _, h := range r.Nontrivial {
		m.Nontrivial[h] = struct{}{}
	}
	for k, v := range r.Outcomes {
		m.Outcomes[k] += v
	}
	for _, s := range r.Samples {
		if len(m.Samples) < 8 {
			m.Samples = append(m.Samples, s)
		}
	}
	m.Violations = append(m.Violations, r.Violations...)
	for k, v := range r.ViolCounts {
		m.ViolCounts[k] += v
	}
	for k, v := range r.Extra {
		m.Extra[k] += v
	}
	for k, v := range r.Covered {
		if v {
			m.Covered[k] = true
		}
	}
	for k, v := range r.Strs {
		m.Strs[k] = v
	}
	m.Notes = append(m.Notes, r.Notes...)
	if !r.Exhaustive {
		m.Exhaustive = false
	}
}

func tierDeadline(tier string) time.Duration {
	if s := os.Getenv("VERIF_DEADLINE_S"); s != "" {
		if n, err := strconv.Atoi(s); err == nil {
			return time.Duration(n) * time.Second
		}
	}
	if tier == "thorough" {
		return 40 * time.Minute
	}
	return 8 * time.Minute
}

// RunWorker executes one unit in this process and writes its result file.
func RunWorker(propID, tier, unitName, out, journal string, deadlineUnix int64, seed int64) int {
	debug.SetMaxStack(256 << 20)
	p := Lookup(propID)
	if p == nil {
		fmt.Fprintln(os.Stderr, "unknown property", propID)
		return 2
	}
	var unit *Unit
	for _, u := range p.Units(tier) {
		if u.Name == unitName {
			uu := u
			unit = &uu
		}
	}
	if unit == nil {
		fmt.Fprintln(os.Stderr, "unknown unit", unitName)
		return 2
	}
	c := NewCtx(propID, tier, unitName)
	c.Seed = seed
	if deadlineUnix > 0 {
		c.Deadline = time.Unix(deadlineUnix, 0)
	}
	if journal != "" {
		f, err := os.OpenFile(journal, os.O_CREATE|os.O_WRONLY|os.O_TRUNC, 0o644)
		if err == nil {
			c.SetJournal(f)
			defer f.Close()
		}
	}
	t0 := time.Now()
	if p.StallS > 0 {
		go func() {
			last, since := c.Progress(), time.Now()
			for {
				time.Sleep(time.Second)
				if now := c.Progress(); now != last {
					last, since = now, time.Now()
				} else if time.Since(since) > time.Duration(p.StallS)*time.Second {
					fmt.Fprintf(os.Stderr, "watchdog: case #%d of unit %s made no progress for %d s (a call that does not return)\n", c.Progress(), unitName, p.StallS)
					os.Exit(3)
				}
			}
		}()
	}
	unit.Run(c)
	r := c.Finish()
	r.WallS = time.Since(t0).Seconds()
	b, _ := json.Marshal(r)
	if err := os.WriteFile(out, b, 0o644); err != nil {
		fmt.Fprintln(os.Stderr, err)
		return 2
	}
	return 0
}

func memLimitKB() int64 {
	if s := os.Getenv("VERIF_WORKER_MEM_KB"); s != "" {
		if n, err := strconv.ParseInt(s, 10, 64); err == nil {
			return n
		}
	}
	return 6 << 20 // 6 GiB of address space per worker
}

func spawn(exe string, args []string, timeout time.Duration) (exit int, tail string) {
	sh := fmt.Sprintf("ulimit -v %d; exec \"$0\" \"$@\"", memLimitKB())
	cmd := exec.Command("sh", append([]string{"-c", sh, exe}, args...)...)
	cmd.Env = append(os.Environ(), "GOMAXPROCS=2", "GOMEMLIMIT=3GiB", "GOTRACEBACK=single", "GORACE=halt_on_error=1")
	var buf tailBuf
	cmd.Stdout = &buf
	cmd.Stderr = &buf
	if err := cmd.Start(); err != nil {
		return 3, err.Error()
	}
	done := make(chan error, 1)
	go func() { done <- cmd.Wait() }()
	select {
	case err := <-done:
		if err != nil {
			if ee, ok := err.(*exec.ExitError); ok {
				return ee.ExitCode(), buf.String()
			}
			return 3, err.Error()
		}
		return 0, buf.String()
	case <-time.After(timeout):
		cmd.Process.Kill()
		<-done
		return -9, "watchdog: unit exceeded " + timeout.String() + "\n" + buf.String()
	}
}

type tailBuf struct {
	mu sync.Mutex
	b  []byte
}

func (t *tailBuf) Write(p []byte) (int, error) {
	t.mu.Lock()
	defer t.mu.Unlock()
	t.b = append(t.b, p...)
	if len(t.b) > 6000 {
		t.b = append(t.b[:2000:2000], t.b[len(t.b)-3000:]...)
	}
	return len(p), nil
}
func (t *tailBuf) String() string { t.mu.Lock(); defer t.mu.Unlock(); return string(t.b) }

func crashKind(tail string) string {
	switch {
	case strings.Contains(tail, "stack overflow") || strings.Contains(tail, "goroutine stack exceeds"):
		return "stack-overflow"
	case strings.Contains(tail, "out of memory") || strings.Contains(tail, "cannot allocate memory"):
		return "out-of-memory"
	case strings.Contains(tail, "concurrent map"):
		return "concurrent-map-access"
	case strings.Contains(tail, "watchdog"):
		return "watchdog-timeout"
	case strings.Contains(tail, "all goroutines are asleep"):
		return "deadlock"
	case strings.Contains(tail, "DATA RACE"):
		return "data-race"
	}
	return "worker-died"
}

// Coordinate runs every unit of a property in worker subprocesses, merges, writes evidence.
func Coordinate(propID, tier string) int {
	t0 := time.Now()
	p := Lookup(propID)
	if p == nil {
		fmt.Fprintln(os.Stderr, "unknown property", propID)
		return 2
	}
	seed := int64(0)
	if s := os.Getenv("VERIF_SEED"); s != "" {
		seed, _ = strconv.ParseInt(s, 10, 64)
	}
	known, err := LoadKnown()
	if err != nil {
		fmt.Fprintln(os.Stderr, "known_findings.json:", err)
		return 2
	}
	exe, _ := os.Executable()
	units := p.Units(tier)
	// order: biggest first; seed rotates ties
	idx := make([]int, len(units))
	for i := range idx {
		idx[i] = i
	}
	sort.SliceStable(idx, func(a, b int) bool { return units[idx[a]].Cost > units[idx[b]].Cost })
	scratch, err := os.MkdirTemp("", "vcheck-"+propID+"-")
	if err != nil {
		fmt.Fprintln(os.Stderr, err)
		return 2
	}
	defer os.RemoveAll(scratch)
	deadline := time.Now().Add(tierDeadline(tier))
	m := &Merged{Prop: p, Tier: tier, Seed: seed, Nontrivial: map[uint64]struct{}{}, Outcomes: map[string]int64{}, ViolCounts: map[string]int64{},
		Extra: map[string]int64{}, Covered: map[string]bool{}, Strs: map[string]string{}, Exhaustive: true, UnitsTotal: len(units), ExtraCov: map[string]interface{}{}}
	var mu sync.Mutex
	nw := runtime.NumCPU()
	if s := os.Getenv("VERIF_WORKERS"); s != "" {
		if n, err := strconv.Atoi(s); err == nil && n > 0 {
			nw = n
		}
	}
	jobs := make(chan int)
	var wg sync.WaitGroup
	for w := 0; w < nw; w++ {
		wg.Add(1)
		go func() {
			defer wg.Done()
			for ui := range jobs {
				u := units[ui]
				if time.Now().After(deadline) {
					mu.Lock()
					m.Exhaustive = false
					m.Notes = append(m.Notes, "deadline: unit not started: "+u.Name)
					mu.Unlock()
					continue
				}
				out := filepath.Join(scratch, fmt.Sprintf("u%d.json", ui))
				args := []string{"--worker", propID, tier, u.Name, "--out", out, "--deadline", strconv.FormatInt(deadline.Unix(), 10), "--seed", strconv.FormatInt(seed, 10)}
				wd := time.Until(deadline) + 5*time.Minute
				uexe := exe
				if u.Binary != "" {
					uexe = exe + "-" + u.Binary
					if _, err := os.Stat(uexe); err != nil {
						mu.Lock()
						m.Notes = append(m.Notes, "binary "+uexe+" missing: unit "+u.Name+" not run")
						m.Exhaustive = false
						mu.Unlock()
						continue
					}
				}
				exit, tail := spawn(uexe, args, wd)
				r := readResult(out)
				if exit != 0 || r == nil {
					// the worker died: re-run with a journal to attribute the crash to the case in flight
					jpath := filepath.Join(scratch, fmt.Sprintf("u%d.journal", ui))
					exit2, tail2 := spawn(uexe, append(args, "--journal", jpath), wd)
					r2 := readResult(out)
					if exit2 == 0 && r2 != nil {
						// did not reproduce: a crash that does not reproduce is not believed, but recorded
						r = r2
						r.Notes = append(r.Notes, fmt.Sprintf("unit %s: worker died once (exit %d, %s) and did not die on re-run", u.Name, exit, crashKind(tail)))
					} else {
						last := lastJournal(jpath)
						r = &Result{Unit: u.Name, Exhaustive: false, ViolCounts: map[string]int64{}}
						v := &Violation{Property: propID, Stage: "run", Kind: "crash", Shape: crashKind(tail2), Message: Normalize(firstFatal(tail2)),
							Case: fmt.Sprintf("unit %s case #%d (worker process died, exit %d)", u.Name, last, exit2), Detail: tail2, Tier: tier, Unit: u.Name, Index: last}
						r.Violations = append(r.Violations, v)
						r.ViolCounts[v.Sig()] = 1
						r.Evaluations = last
						r.Notes = append(r.Notes, "unit "+u.Name+" aborted by worker crash; remaining cases of the unit not explored")
					}
				}
				mu.Lock()
				m.add(r)
				m.UnitsRun++
				mu.Unlock()
			}
		}()
	}
	for _, ui := range idx {
		jobs <- ui
	}
	close(jobs)
	wg.Wait()
	if p.Post != nil {
		if err := p.Post(tier, m); err != nil {
			m.Notes = append(m.Notes, "post: "+err.Error())
		}
	}
	return finish(m, known, t0)
}

func firstFatal(tail string) string {
	for _, l := range strings.Split(tail, "\n") {
		if strings.HasPrefix(l, "fatal error:") || strings.HasPrefix(l, "panic:") || strings.HasPrefix(l, "runtime:") || strings.HasPrefix(l, "watchdog") {
			return l
		}
	}
	if len(tail) > 200 {
		return tail[:200]
	}
	return tail
}

func readResult(path string) *Result {
	b, err := os.ReadFile(path)
	if err != nil {
		return nil
	}
	os.Remove(path)
	var r Result
	if json.Unmarshal(b, &r) != nil {
		return nil
	}
	return &r
}

func lastJournal(path string) int64 {
	f, err := os.Open(path)
	if err != nil {
		return 0
	}
	defer f.Close()
	var last int64
	sc := bufio.NewScanner(f)
	for sc.Scan() {
		if n, err := strconv.ParseInt(strings.TrimSpace(sc.Text()), 10, 64); err == nil {
			last = n
		}
	}
	return last
}

func finish(m *Merged, known *KnownFile, t0 time.Time) int {
	p := m.Prop
	// anti-vacuity
	var harnessErrs []string
	if p.RequireCover != nil && m.Exhaustive {
		for _, it := range p.RequireCover(m.Tier) {
			if !m.Covered[it] {
				harnessErrs = append(harnessErrs, "anti-vacuity: never exercised: "+it)
			}
		}
	}
	if p.MinOutcomes > 0 && len(m.Outcomes) < p.MinOutcomes && m.Exhaustive {
		harnessErrs = append(harnessErrs, fmt.Sprintf("anti-vacuity: only %d distinct outcomes (need %d)", len(m.Outcomes), p.MinOutcomes))
	}
	// classify violations
	knownHit := map[string]*Finding{}
	knownCount := map[string]int64{}
	var fresh []*Violation
	freshSig := map[string]bool{}
	sort.SliceStable(m.Violations, func(i, j int) bool {
		a, b := m.Violations[i], m.Violations[j]
		if a.Unit != b.Unit {
			return a.Unit < b.Unit
		}
		return a.Index < b.Index
	})
	for _, v := range m.Violations {
		if f := known.Match(v); f != nil {
			knownHit[f.ID] = f
			knownCount[f.ID] += m.ViolCounts[v.Sig()]
			continue
		}
		if !freshSig[v.Sig()] {
			freshSig[v.Sig()] = true
			fresh = append(fresh, v)
		}
	}
	if os.Getenv("VERIF_TRIAGE") != "" {
		sort.Slice(m.Results, func(i, j int) bool { return m.Results[i].WallS > m.Results[j].WallS })
		for i, r := range m.Results {
			if i < 6 {
				fmt.Printf("SLOW unit %s %.1fs evals=%d\n", r.Unit, r.WallS, r.Evaluations)
			}
		}
		ListViolations(m)
		seen := map[string]bool{}
		for _, v := range m.Violations {
			if !seen[v.Sig()] {
				seen[v.Sig()] = true
				kf := ""
				if f := known.Match(v); f != nil {
					kf = " [known " + f.ID + "]"
				}
				fmt.Printf("EX%s %s\n    case: %s\n    detail: %s\n", kf, v.Sig(), trunc(v.Case, 400), trunc(v.Detail, 400))
			}
		}
	}
	var ids []string
	for id := range knownHit {
		ids = append(ids, id)
	}
	sort.Strings(ids)
	for _, id := range ids {
		fmt.Printf("KNOWN-FINDING: property=%s %s %s\n", p.ID, id, knownHit[id].What)
	}
	exit := 0
	var totalFresh int64
	// replay files belong to one run: drop those of earlier runs
	os.RemoveAll(filepath.Join(VerifDir, "replays", p.ID))
	os.MkdirAll(filepath.Join(VerifDir, "replays", p.ID), 0o755)
	for i, v := range fresh {
		totalFresh += m.ViolCounts[v.Sig()]
		if i >= 25 {
			continue
		}
		path := filepath.Join(VerifDir, "replays", p.ID, fmt.Sprintf("%016x.json", Hash64(v.Sig()+v.Unit)))
		b, _ := json.MarshalIndent(v, "", "  ")
		os.WriteFile(path, b, 0o644)
		fmt.Printf("VIOLATION property=%s replay=%s\n", p.ID, path)
		fmt.Printf("  %s/%s shape=%s: %s\n  case: %s\n", v.Stage, v.Kind, v.Shape, trunc(v.Message, 200), trunc(v.Case, 300))
		exit = 1
	}
	if len(fresh) > 25 {
		fmt.Printf("  (%d further distinct violation signatures not written out)\n", len(fresh)-25)
	}
	for _, e := range harnessErrs {
		fmt.Println("HARNESS-ERROR:", e)
		exit = 2
	}
	if exit == 2 && len(fresh) > 0 {
		exit = 1
	}
	// evidence
	nontriv := int64(len(m.Nontrivial)) + m.DistinctBC
	states, trans := m.States, m.Transitions
	if states == 0 {
		states = m.Evaluations
	}
	if trans == 0 {
		trans = m.Evaluations
	}
	impl := m.ImplTraces
	if impl == 0 {
		impl = m.Evaluations
	}
	var outs []string
	for k := range m.Outcomes {
		outs = append(outs, k)
	}
	sort.Strings(outs)
	if len(outs) > 40 {
		outs = outs[:40]
	}
	samples := m.Samples
	if len(samples) == 0 {
		samples = []interface{}{"(no case executed)"}
	}
	cov := map[string]interface{}{
		"evaluations": m.Evaluations, "distinct_nontrivial": nontriv, "rule": p.Rule, "samples": samples,
		"states": states, "transitions": trans, "traces_validated_against_impl": impl,
		"exhaustive": m.Exhaustive, "distinct_outcomes": len(m.Outcomes), "outcome_classes": outs,
		"units_run": m.UnitsRun, "units_total": m.UnitsTotal, "counters": m.Extra, "notes": m.Notes,
		"known_findings_hit": knownCount, "fresh_violation_cases": totalFresh, "fresh_violation_signatures": len(fresh),
	}
	var covered []string
	for k := range m.Covered {
		covered = append(covered, k)
	}
	sort.Strings(covered)
	if len(covered) > 0 {
		cov["covered_items"] = covered
	}
	for k, v := range m.ExtraCov {
		cov[k] = v
	}
	if len(m.Strs) > 0 {
		cov["info"] = m.Strs
	}
	ev := map[string]interface{}{
		"property_id": p.ID, "tier": m.Tier, "seed": m.Seed, "level": p.Level, "coverage": cov,
		"assumptions": p.Assumptions, "wall_s": time.Since(t0).Seconds(), "violations": len(fresh),
	}
	os.MkdirAll(filepath.Join(VerifDir, "evidence"), 0o755)
	b, _ := json.MarshalIndent(ev, "", " ")
	if err := os.WriteFile(filepath.Join(VerifDir, "evidence", p.ID+".json"), append(b, '\n'), 0o644); err != nil {
		fmt.Fprintln(os.Stderr, "evidence:", err)
		return 2
	}
	fmt.Printf("%s %s: evaluations=%d states=%d transitions=%d distinct_nontrivial=%d outcomes=%d units=%d/%d exhaustive=%v known=%d fresh=%d wall=%.1fs\n",
		p.ID, m.Tier, m.Evaluations, states, trans, nontriv, len(m.Outcomes), m.UnitsRun, m.UnitsTotal, m.Exhaustive, len(ids), len(fresh), time.Since(t0).Seconds())
	return exit
}

func trunc(s string, n int) string {
	if len(s) > n {
		return s[:n] + "…"
	}
	return s
}

// Replay re-executes one recorded case in this process, verbosely.
func Replay(propID, path string) int {
	p := Lookup(propID)
	if p == nil {
		fmt.Fprintln(os.Stderr, "unknown property", propID)
		return 2
	}
	b, err := os.ReadFile(path)
	if err != nil {
		fmt.Fprintln(os.Stderr, err)
		return 2
	}
	var v Violation
	if err := json.Unmarshal(b, &v); err != nil {
		fmt.Fprintln(os.Stderr, err)
		return 2
	}
	for _, u := range p.Units(v.Tier) {
		if u.Name != v.Unit {
			continue
		}
		c := NewCtx(propID, v.Tier, v.Unit)
		c.ReplayIdx = v.Index
		c.ReplayChoices = v.Choices
		c.Verbose = true
		fmt.Printf("replaying %s unit=%s case #%d: %s\n", propID, v.Unit, v.Index, v.Case)
		u.Run(c)
		if len(c.Res.Violations) > 0 {
			fmt.Printf("VIOLATION property=%s replay=%s\n", propID, path)
			return 1
		}
		fmt.Println("no violation on replay")
		return 0
	}
	fmt.Fprintln(os.Stderr, "unit not found:", v.Unit)
	return 2
}

// ListViolations prints all violation signatures with counts (triage aid).
func ListViolations(m *Merged) {
	var sigs []string
	for k := range m.ViolCounts {
		sigs = append(sigs, k)
	}
	sort.Strings(sigs)
	for _, s := range sigs {
		fmt.Printf("%8d  %s\n", m.ViolCounts[s], s)
	}
}
