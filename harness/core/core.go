// Package core is the common runner: units of enumeration, per-case bookkeeping,
// violations with signatures, known-finding matching, evidence files, worker isolation.
package core

import (
	"encoding/json"
	"fmt"
	"hash/fnv"
	"os"
	"regexp"
	"sort"
	"strings"
	"sync/atomic"
	"time"
)

// Violation is one failing case.
type Violation struct {
	Property string `json:"property"`
	Stage    string `json:"stage"`   // encode | refparse | denote | decode | compare | ...
	Kind     string `json:"kind"`    // error | panic | mismatch | runaway | crash | ...
	Shape    string `json:"shape"`   // per-property shape class of the failing case
	Message  string `json:"message"` // normalised message
	Case     string `json:"case"`    // human readable case
	Detail   string `json:"detail,omitempty"`
	Tier     string `json:"tier"`
	Unit     string `json:"unit"`
	Index    int64  `json:"index"`
	Choices  []int  `json:"choices,omitempty"`
}

var (
	reAddr = regexp.MustCompile(`0x[0-9a-fA-F]{6,}`)
	reLine = regexp.MustCompile(`\((\w+\.go):\d+\)`)
	reNum  = regexp.MustCompile(`\b\d{4,}\b`)
)

// Normalize strips addresses, line numbers and long numbers from a message.
func Normalize(s string) string {
	s = reAddr.ReplaceAllString(s, "0xADDR")
	s = reLine.ReplaceAllString(s, "($1)")
	s = reNum.ReplaceAllString(s, "N")
	s = strings.ReplaceAll(s, "\n", " ")
	if len(s) > 300 {
		s = s[:300]
	}
	return s
}

// Sig is the signature used for deduplication and known-finding matching.
func (v *Violation) Sig() string {
	return v.Stage + "|" + v.Kind + "|" + v.Shape + "|" + v.Message
}

// Result is what one unit run produces.
type Result struct {
	Unit          string            `json:"unit"`
	Evaluations   int64             `json:"evaluations"`
	States        int64             `json:"states"`
	Transitions   int64             `json:"transitions"`
	ImplTraces    int64             `json:"impl_traces"`
	DistinctByCon int64             `json:"distinct_by_construction"`
	Nontrivial    []uint64          `json:"nontrivial,omitempty"`
	Outcomes      map[string]int64  `json:"outcomes,omitempty"`
	Samples       []interface{}     `json:"samples,omitempty"`
	Violations    []*Violation      `json:"violations,omitempty"`
	ViolCounts    map[string]int64  `json:"viol_counts,omitempty"`
	Extra         map[string]int64  `json:"extra,omitempty"`
	Notes         []string          `json:"notes,omitempty"`
	Exhaustive    bool              `json:"exhaustive"`
	WallS         float64           `json:"wall_s"`
	Covered       map[string]bool   `json:"covered,omitempty"`
	Strs          map[string]string `json:"strs,omitempty"`
}

// Ctx is handed to a unit's Run function.
type Ctx struct {
	Prop, Tier, Unit string
	Seed             int64
	Res              *Result
	idx              int64
	progress         int64 // bumped by Begin and Tick; read by the stall monitor
	ReplayIdx        int64 // -1 = normal run
	ReplayChoices    []int
	Verbose          bool
	journal          *os.File
	Deadline         time.Time
	nontriv          map[uint64]struct{}
	sigSeen          map[string]int
	expired          bool
	lastCheck        int64
}

// NewCtx builds a context.
func NewCtx(prop, tier, unit string) *Ctx {
	return &Ctx{Prop: prop, Tier: tier, Unit: unit, ReplayIdx: -1,
		Res:     &Result{Unit: unit, Outcomes: map[string]int64{}, ViolCounts: map[string]int64{}, Extra: map[string]int64{}, Covered: map[string]bool{}, Strs: map[string]string{}, Exhaustive: true},
		nontriv: map[uint64]struct{}{}, sigSeen: map[string]int{}}
}

// SetJournal makes Begin record every case index before it runs.
func (c *Ctx) SetJournal(f *os.File) { c.journal = f }

// Begin starts a case. It returns false if the case must be skipped (replay mode
// selecting another index, or the deadline passed).
func (c *Ctx) Begin() bool {
	c.idx++
	atomic.AddInt64(&c.progress, 1)
	if c.ReplayIdx >= 0 {
		return c.idx == c.ReplayIdx
	}
	if c.expired {
		return false
	}
	if c.idx-c.lastCheck >= 256 {
		c.lastCheck = c.idx
		if !c.Deadline.IsZero() && time.Now().After(c.Deadline) {
			c.expired = true
			c.Res.Exhaustive = false
			c.Res.Notes = append(c.Res.Notes, fmt.Sprintf("deadline reached in unit %s after %d cases", c.Unit, c.idx))
			return false
		}
	}
	if c.journal != nil {
		fmt.Fprintf(c.journal, "%d\n", c.idx)
	}
	c.Res.Evaluations++
	return true
}

// Tick tells the stall monitor that the current case is making progress (for cases that legitimately take long).
func (c *Ctx) Tick() { atomic.AddInt64(&c.progress, 1) }

// Progress is read by the stall monitor.
func (c *Ctx) Progress() int64 { return atomic.LoadInt64(&c.progress) }

// Stop ends the unit early (after a violation that makes further cases pointless or harmful, such as
// a blocked call that leaks goroutines): later Begin calls return false and the unit is not exhaustive.
func (c *Ctx) Stop(why string) {
	if !c.expired {
		c.expired = true
		c.Res.Exhaustive = false
		c.Res.Notes = append(c.Res.Notes, fmt.Sprintf("unit %s stopped early: %s", c.Unit, why))
	}
}

// Expired reports whether the deadline has passed (checked by Begin).
func (c *Ctx) Expired() bool { return c.expired }

// Replaying reports replay mode.
func (c *Ctx) Replaying() bool { return c.ReplayIdx >= 0 }

// Index is the index of the current case.
func (c *Ctx) Index() int64 { return c.idx }

// Hash64 hashes a string.
func Hash64(s string) uint64 {
	h := fnv.New64a()
	h.Write([]byte(s))
	return h.Sum64()
}

// Nontrivial records a distinct non-trivial case by hash (bounded set).
func (c *Ctx) Nontrivial(key string) {
	if len(c.nontriv) < 400000 {
		c.nontriv[Hash64(key)] = struct{}{}
	} else {
		c.Res.Extra["nontrivial_set_overflow"]++
	}
}

// NontrivialN adds n cases that are distinct by construction.
func (c *Ctx) NontrivialN(n int64) { c.Res.DistinctByCon += n }

// Outcome records an outcome class.
func (c *Ctx) Outcome(o string) {
	if len(c.Res.Outcomes) < 2000 || c.Res.Outcomes[o] > 0 {
		c.Res.Outcomes[o]++
	}
}

// Cover marks an anti-vacuity item as exercised.
func (c *Ctx) Cover(item string) { c.Res.Covered[item] = true }

// Sample keeps a handful of written-out cases.
func (c *Ctx) Sample(s interface{}) {
	if len(c.Res.Samples) < 4 {
		c.Res.Samples = append(c.Res.Samples, s)
	}
}

// WantSample is true while more samples are welcome.
func (c *Ctx) WantSample() bool { return len(c.Res.Samples) < 4 }

// Report records a violation of the current case.
func (c *Ctx) Report(v *Violation) {
	v.Property = c.Prop
	v.Tier = c.Tier
	v.Unit = c.Unit
	v.Index = c.idx
	v.Message = Normalize(v.Message)
	if len(v.Case) > 2000 {
		v.Case = v.Case[:2000] + "…"
	}
	if len(v.Detail) > 3000 {
		v.Detail = v.Detail[:3000] + "…"
	}
	sig := v.Sig()
	c.Res.ViolCounts[sig]++
	if c.sigSeen[sig] < 2 && len(c.Res.Violations) < 400 {
		c.sigSeen[sig]++
		c.Res.Violations = append(c.Res.Violations, v)
	}
	if c.Verbose {
		b, _ := json.MarshalIndent(v, "", "  ")
		fmt.Println(string(b))
	}
}

// Finish finalises the result.
func (c *Ctx) Finish() *Result {
	for k := range c.nontriv {
		c.Res.Nontrivial = append(c.Res.Nontrivial, k)
	}
	sort.Slice(c.Res.Nontrivial, func(i, j int) bool { return c.Res.Nontrivial[i] < c.Res.Nontrivial[j] })
	return c.Res
}

// Unit is an independently runnable part of a property's space.
type Unit struct {
	Name string
	Run  func(c *Ctx)
	// Isolated units run with a hard memory limit and are expected to possibly crash.
	Cost int // relative cost estimate for ordering (bigger first)
	// Binary selects another build of the same program for this unit ("race" = built with -race, not instrumented)
	Binary string
}

// Prop is a property check.
type Prop struct {
	ID          string
	Level       string // model_checking | fault_enumeration
	Rule        string
	Assumptions []string
	Units       func(tier string) []Unit
	// Classify maps the known-finding file's entries; nil = default matcher.
	RequireCover func(tier string) []string // anti-vacuity items that must be covered
	MinOutcomes  int
	// Post runs in the coordinator after merging (e.g. extra passes such as -race).
	Post func(tier string, m *Merged) error
	// StallS > 0: a worker whose current case makes no progress for that many seconds ends itself with a
	// "watchdog" line; the coordinator's journal re-run then attributes the stall to the case in flight.
	// Only for properties whose cases take micro- to milliseconds (a stalled call is their subject).
	StallS int
}

var registry = map[string]*Prop{}

// Register adds a property.
func Register(p *Prop) { registry[p.ID] = p }

// Lookup finds a property.
func Lookup(id string) *Prop { return registry[id] }

// IDs lists registered ids.
func IDs() []string {
	var l []string
	for k := range registry {
		l = append(l, k)
	}
	sort.Strings(l)
	return l
}

// Catch runs f and converts a panic into a string (empty if none).
func Catch(f func()) (pmsg string) {
	defer func() {
		if r := recover(); r != nil {
			pmsg = fmt.Sprint(r)
			if pmsg == "" {
				pmsg = "panic"
			}
		}
	}()
	f()
	return ""
}
