// Package explore is the choice explorer: prefix-replay depth-first search over the
// decisions a deterministic case function makes, with a bound on deviations.
package explore

import "fmt"

// Point is one decision taken during an execution.
type Point struct {
	Arity int
	Dev   bool
	Label string
	Taken int
}

// Chooser hands out decisions: a recorded prefix first, then alternative 0.
type Chooser struct {
	prefix []int
	Trace  []Point
	devs   int
}

// ErrDiverged is raised (as a panic) when replay does not reproduce the recorded shape.
type ErrDiverged struct{ Msg string }

func (e ErrDiverged) Error() string { return "harness nondeterminism: " + e.Msg }

func (c *Chooser) next(n int, dev bool, label string) int {
	if n <= 0 {
		panic(ErrDiverged{fmt.Sprintf("choice %q with arity %d", label, n)})
	}
	i := len(c.Trace)
	t := 0
	if i < len(c.prefix) {
		t = c.prefix[i]
		if t < 0 || t >= n {
			panic(ErrDiverged{fmt.Sprintf("replayed choice %d out of range %d at point %d (%s)", t, n, i, label)})
		}
	}
	if dev && t != 0 {
		c.devs++
	}
	c.Trace = append(c.Trace, Point{n, dev, label, t})
	return t
}

// All is a free choice among n alternatives.
func (c *Chooser) All(n int, label string) int { return c.next(n, false, label) }

// Dev is a choice where every alternative but 0 costs one deviation.
func (c *Chooser) Dev(n int, label string) int { return c.next(n, true, label) }

// Devs is the number of deviations taken so far.
func (c *Chooser) Devs() int { return c.devs }

// Choices returns the decisions taken.
func (c *Chooser) Choices() []int {
	r := make([]int, len(c.Trace))
	for i, p := range c.Trace {
		r[i] = p.Taken
	}
	return r
}

// Stats counts what an exploration covered.
type Stats struct {
	Executions  int64
	Transitions int64
	MaxDepth    int
}

// Explorer enumerates all executions of a case within a deviation bound.
type Explorer struct {
	Bound int
	// Case runs one execution; it must be deterministic given the chooser.
	Case func(c *Chooser)
	// Visit is called after each execution; returning false stops the search.
	Visit func(c *Chooser) bool
	// External, when set, runs the execution elsewhere (e.g. in a fresh process) for the given
	// choice prefix and returns the decision points it took; Case is then not used.
	External func(prefix []int) []Point
	Stats Stats
	stop  bool
}

// Run explores everything reachable from the given prefix.
func (e *Explorer) Run(prefix []int) {
	e.explore(prefix, nil)
}

func (e *Explorer) explore(prefix []int, shape []Point) {
	if e.stop {
		return
	}
	c := &Chooser{prefix: prefix}
	if e.External != nil {
		c.Trace = e.External(prefix)
		for _, p := range c.Trace {
			if p.Dev && p.Taken != 0 {
				c.devs++
			}
		}
	} else {
		e.Case(c)
	}
	// replay must reproduce the recorded arities/labels of the parent execution
	for i := 0; i < len(prefix)-1 && i < len(shape) && i < len(c.Trace); i++ {
		if shape[i].Arity != c.Trace[i].Arity || shape[i].Label != c.Trace[i].Label {
			panic(ErrDiverged{fmt.Sprintf("point %d was %s/%d, now %s/%d", i, shape[i].Label, shape[i].Arity, c.Trace[i].Label, c.Trace[i].Arity)})
		}
	}
	if len(c.Trace) < len(prefix) {
		panic(ErrDiverged{fmt.Sprintf("execution made %d choices, prefix has %d", len(c.Trace), len(prefix))})
	}
	e.Stats.Executions++
	e.Stats.Transitions += int64(len(c.Trace) - len(prefix) + 1)
	if len(c.Trace) > e.Stats.MaxDepth {
		e.Stats.MaxDepth = len(c.Trace)
	}
	if e.Visit != nil && !e.Visit(c) {
		e.stop = true
		return
	}
	trace := c.Trace
	devs := 0
	for i := 0; i < len(trace); i++ {
		if i >= len(prefix) {
			p := trace[i]
			cost := devs
			if p.Dev {
				cost++
			}
			if cost <= e.Bound {
				for alt := 1; alt < p.Arity; alt++ {
					np := make([]int, i+1)
					for j := 0; j < i; j++ {
						np[j] = trace[j].Taken
					}
					np[i] = alt
					e.explore(np, trace)
					if e.stop {
						return
					}
				}
			}
		}
		if trace[i].Dev && trace[i].Taken != 0 {
			devs++
		}
	}
}

// ReplayOne runs the case once with a full choice vector.
func ReplayOne(choices []int, f func(c *Chooser)) *Chooser {
	c := &Chooser{prefix: choices}
	f(c)
	return c
}
